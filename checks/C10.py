"""C10 — statement dataflow analyses are sound.

Programs (straight-line statement lists over a small grammar, optionally with a compartmental system) are enumerated
exhaustively within the bound; for each program the REAL pharmpy analyses are run and z3 decides, over all numeric
environments, that their answers agree with an independent sequential reference interpreter (lib/semeq.py):
full_expression == executed value; every leaf not reported by `dependencies` is semantically irrelevant (query
"two environments differing only in that leaf give different values" must be unsat); remove_symbol_definitions keeps
every remaining statement's value; subs/reassign/find_assignment agree with the reference program edit.
A sat answer is replayed numerically on pharmpy's own expressions before it is reported.
"""
import itertools
import json
import multiprocessing as mp
import os
import random
import sys
import time

from vcommon import Run

ASSIGNABLES = ['A', 'B', 'C']
LEAVES = ['P', 'Q', 'R']


def rhs_alphabet(target):
    """RHS forms for a statement assigning `target` (strings parsed by pharmpy's Expr)."""
    others = [s for s in ASSIGNABLES if s != target]
    return [
        ('leafP', 'P'), ('leafQ', 'Q'),
        ('symA', 'A'), ('symB', 'B'), ('symC', 'C'),
        ('self', f'{target} + P'),
        ('prodAB', 'A*B'), ('prodAC', 'A*C'), ('prodBC', 'B*C'),
        ('pw', ('PW', others[0], others[1])),
    ]


def programs(length, with_pw=True):
    per_stmt = []
    for t in ASSIGNABLES:
        for name, r in rhs_alphabet(t):
            if name == 'pw' and not with_pw:
                continue
            per_stmt.append((t, r))
    return itertools.product(per_stmt, repeat=length)


ODE_TEMPLATES = [
    # (before statements, flows [(src, dst|None, rate)], after statements)
    ([('A', 'P'), ('B', 'Q')], [('CENTRAL', None, 'A/B')], [('C', 'A_CENTRAL(t)/B')]),
    ([('A', 'P'), ('A', 'A + Q'), ('B', 'R')], [('CENTRAL', None, 'A')], [('C', 'A_CENTRAL(t)*B')]),
    ([('A', 'B'), ('B', 'P')], [('DEPOT', 'CENTRAL', 'A'), ('CENTRAL', None, 'B')], [('C', 'A_CENTRAL(t)')]),
    ([('A', 'P'), ('B', 'A'), ('A', 'Q')], [('DEPOT', 'CENTRAL', 'B'), ('CENTRAL', None, 'A')],
     [('C', 'A_CENTRAL(t) + A')]),
    ([('B', 'A'), ('A', 'P'), ('C', 'B')], [('CENTRAL', 'PERIPHERAL', 'C'), ('PERIPHERAL', 'CENTRAL', 'A'),
                                             ('CENTRAL', None, 'Q')], [('A', 'A_PERIPHERAL(t)*C')]),
]

_W = {}


def _init():
    import sympy
    import sym2smt
    import semeq
    from pharmpy.basic import BooleanExpr, Expr
    from pharmpy.model import Assignment, Bolus, Compartment, CompartmentalSystem, CompartmentalSystemBuilder, \
        Statements, output
    _W.update(sympy=sympy, sym2smt=sym2smt, semeq=semeq, Expr=Expr, BooleanExpr=BooleanExpr, Assignment=Assignment,
              Statements=Statements, Bolus=Bolus, Compartment=Compartment, CompartmentalSystem=CompartmentalSystem,
              CSB=CompartmentalSystemBuilder, output=output)


def mk_assign(t, r):
    Expr, BooleanExpr, Assignment = _W['Expr'], _W['BooleanExpr'], _W['Assignment']
    if isinstance(r, tuple):
        _, s1, s2 = r
        e = Expr.piecewise((Expr.symbol(s1), BooleanExpr.gt(Expr.symbol('R'), 0)), (Expr.symbol(s2), True))
    else:
        e = Expr(r)
    return Assignment.create(Expr.symbol(t), e)


def mk_ode(flows):
    Compartment, CSB, CS, Bolus, output, Expr = (_W['Compartment'], _W['CSB'], _W['CompartmentalSystem'],
                                                   _W['Bolus'], _W['output'], _W['Expr'])
    names = []
    for s, d, _ in flows:
        for n in (s, d):
            if n and n not in names:
                names.append(n)
    comps = {}
    cb = CSB()
    for i, n in enumerate(names):
        c = Compartment.create(n, doses=(Bolus.create('AMT'),) if i == 0 else ())
        comps[n] = c
        cb.add_compartment(c)
    for s, d, r in flows:
        cb.add_flow(comps[s], comps[d] if d else output, Expr(r))
    return CS(cb)


def ref_liveness(stmts, i):
    """independent syntactic closure: backward liveness from statement i."""
    Assignment = _W['Assignment']
    live = set(stmts[i].rhs_symbols)
    for j in range(i - 1, -1, -1):
        st = stmts[j]
        if isinstance(st, Assignment):
            if st.symbol in live:
                live = (live - {st.symbol}) | set(st.rhs_symbols)
        else:
            amts = set(st.amounts)
            if live & amts:
                live = (live - amts) | set(st.rhs_symbols)
    return live


def desc(stmts):
    return '; '.join(f'{s.symbol} = {s.expression}' if not hasattr(s, 'eqs') else 'ODE[' + ', '.join(
        f'{e.lhs}={e.rhs}' for e in s.eqs) + ']' for s in stmts)


def analyse(prog):
    """prog: ('plain', ((t, r), ...)) or ('ode', idx).  Returns dict(queries, results: list of (obligation, verdict,
    detail))"""
    if not _W:
        _init()
    sympy, semeq, sym2smt = _W['sympy'], _W['semeq'], _W['sym2smt']
    Expr, Assignment, Statements = _W['Expr'], _W['Assignment'], _W['Statements']
    eq = sym2smt.Equiv(timeout_ms=10000)
    out = []
    kind, spec = prog
    if kind == 'plain':
        stmts = [mk_assign(t, r) for t, r in spec]
        has_ode = False
    else:
        b, flows, a = ODE_TEMPLATES[spec]
        stmts = [mk_assign(t, r) for t, r in b] + [mk_ode(flows)] + [mk_assign(t, r) for t, r in a]
        has_ode = True
    P = Statements(stmts)
    text = desc(stmts)
    den = semeq.denote(P)
    n = len(stmts)
    assigned = []
    for st in stmts:
        if isinstance(st, Assignment) and st.symbol not in assigned:
            assigned.append(st.symbol)
    twice = len(assigned) != sum(1 for st in stmts if isinstance(st, Assignment))
    ode_index = next((i for i, st in enumerate(stmts) if not isinstance(st, Assignment)), None)

    def rec(ob, verdict, **detail):
        out.append((ob, verdict, dict(program=text, **detail)))

    def guarded(ob, fn):
        try:
            return True, fn()
        except Exception as e:  # noqa -- any internal error is a candidate
            rec(ob, 'violated', error=f'{type(e).__name__}: {e}', kind='internal error')
            return False, None

    # ---- full_expression -------------------------------------------------------------------------------------
    parts = [(P, den)] if not has_ode else [(P.before_odes, semeq.denote(P.before_odes)),
                                            (P.after_odes, semeq.denote(P.after_odes))]
    for part, pden in parts:
        syms = []
        for st in part:
            if st.symbol not in syms:
                syms.append(st.symbol)
        exprs = [s for s in syms]
        if len(syms) >= 2:
            exprs.append(syms[0] + syms[1] * 2)
        for e in exprs:
            ok, fe = guarded('full_expression', lambda: part.full_expression(e))
            if not ok:
                continue
            v, info = eq.check(fe, semeq.value_of(pden, e))
            if v == 'equal':
                rec('full_expression', 'discharged')
            elif v == 'differ':
                rec('full_expression', 'violated', expr=str(e), got=str(fe), ref=str(semeq.value_of(pden, e)),
                    witness=info)
            else:
                rec('full_expression', 'inconclusive', info=info)

    # ---- dependencies ----------------------------------------------------------------------------------------
    for s in assigned:
        ok, deps = guarded('dependencies', lambda: set(P.dependencies(s)))
        if not ok:
            continue
        i = max(k for k, st in enumerate(stmts) if isinstance(st, Assignment) and st.symbol == s)
        val = den.trace[i][2][sympy.Symbol(str(s))]
        # through an ODE system: the amounts depend on everything the right-hand sides depend on
        through = [val]
        if has_ode and ode_index < i and val.atoms(sympy.core.function.AppliedUndef):
            through += list(den.odes.values())
        depnames = {str(d) for d in deps}
        bad = None
        for expr in through:
            for leaf in sorted(semeq.leaves(expr), key=str):
                if isinstance(leaf, sympy.core.function.AppliedUndef) or str(leaf) == 't':
                    continue
                if str(leaf) in depnames:
                    continue
                r, info = semeq.depends_semantically(eq, expr, leaf)
                if r == 'dependent':
                    bad = (str(leaf), str(expr), info)
                    break
                if r == 'unknown':
                    rec('dependencies.sound', 'inconclusive', info=info)
            if bad:
                break
        if bad:
            rec('dependencies.sound', 'violated', symbol=str(s), reported=sorted(depnames), missing=bad[0],
                value=bad[1], witness=bad[2])
        else:
            rec('dependencies.sound', 'discharged')
        if not twice:
            refd = {str(x) for x in ref_liveness(stmts, i)}
            if refd != depnames:
                rec('dependencies.exact', 'violated', symbol=str(s), reported=sorted(depnames), reference=sorted(refd))
            else:
                rec('dependencies.exact', 'discharged')

    # ---- modeling.expressions._dependency_graph / depends_on (symbol level): sound for the final value of a symbol ----
    if not has_ode:
        import pharmpy.modeling.expressions as ME
        for s in assigned:
            i = max(k for k, st in enumerate(stmts) if isinstance(st, Assignment) and st.symbol == s)
            val = den.trace[i][2][sympy.Symbol(str(s))]
            bad = None
            for leaf in sorted(semeq.leaves(val), key=str):
                if isinstance(leaf, sympy.core.function.AppliedUndef) or str(leaf) == 't':
                    continue
                ok, ans = guarded('depends_on', lambda: ME._depends_on_any_of(P, Expr.symbol(str(s)), [Expr.symbol(str(leaf))]))
                if not ok:
                    bad = 'error'
                    break
                if ans:
                    continue
                r, info = semeq.depends_semantically(eq, val, leaf)
                if r == 'dependent':
                    bad = (str(leaf), str(val), info)
                    break
                if r == 'unknown':
                    rec('depends_on.sound', 'inconclusive', info=info)
            if bad == 'error':
                continue
            if bad:
                # a separate region: the missing leaf is an input that the program itself assigns later
                later = bad[0] in {str(a) for a in assigned}
                rec('depends_on.sound', 'violated', symbol=str(s), missing=bad[0], value=bad[1], witness=bad[2],
                    kind='input assigned later in the program' if later else '')
            else:
                rec('depends_on.sound', 'discharged')

    # ---- answers are values, not views (concrete frame condition, not a solver verdict): editing a returned set
    # must not change later answers of any query on the same statements
    try:
        before = {str(s): sorted(map(str, P.dependencies(s))) for s in assigned}
        for s in assigned:
            P.dependencies(s).clear()
        for st in stmts:
            st.rhs_symbols.clear()
            st.free_symbols.clear()
        P.free_symbols.clear()
        after = {str(s): sorted(map(str, P.dependencies(s))) for s in assigned}
        P2 = Statements(list(stmts))
        after2 = {str(s): sorted(map(str, P2.dependencies(s))) for s in assigned}
        if before != after or before != after2:
            rec('answers_are_values', 'violated', before=before, after=after, after_rebuild=after2,
                kind='editing a returned set changed later answers')
        else:
            rec('answers_are_values', 'discharged')
    except Exception as e:  # noqa
        rec('answers_are_values', 'violated', error=f'{type(e).__name__}: {e}', kind='internal error')

    # ---- remove_symbol_definitions ---------------------------------------------------------------------------
    Z = Expr.symbol('Z')
    for k, st in enumerate(stmts):
        if not isinstance(st, Assignment):
            continue
        earlier = {x.symbol for x in stmts[:k] if isinstance(x, Assignment)}
        used = [x for x in st.rhs_symbols if x in earlier and x != st.symbol]
        if not used:
            continue
        for subset in ([used] if len(used) == 1 else [used, used[:1]]):
            newst = Assignment.create(st.symbol, st.expression.subs({x: Z for x in subset}))
            P1 = Statements(stmts[:k] + [newst] + stmts[k + 1:])
            ok, P2 = guarded('remove_symbol_definitions', lambda: P1.remove_symbol_definitions(subset, newst))
            if not ok:
                continue
            d1 = semeq.denote(P1)
            d2 = semeq.denote(P2)
            # map P2's statements onto P1's (subsequence, by identity then equality)
            pos = 0
            mapping = []
            okmap = True
            for st2 in P2:
                while pos < len(P1) and P1[pos] != st2:
                    pos += 1
                if pos == len(P1):
                    okmap = False
                    break
                mapping.append(pos)
                pos += 1
            if not okmap or k not in mapping:
                rec('remove_symbol_definitions', 'violated', edited=desc(P1), result=desc(P2),
                    kind='result is not a subsequence containing the edited statement')
                continue
            verdict = 'discharged'
            for j2, j1 in enumerate(mapping):
                if not isinstance(P1[j1], Assignment):
                    for amt, rhs in d1.odes.items():
                        v, info = eq.check(rhs, d2.odes[amt])
                        if v == 'differ':
                            verdict = ('violated', f'ODE rhs of {amt}', info)
                    continue
                sym = sympy.Symbol(str(P1[j1].symbol))
                v, info = eq.check(d1.trace[j1][2][sym], d2.trace[j2][2][sym])
                if v == 'differ':
                    verdict = ('violated', f'value of statement {j1} ({P1[j1].symbol})', info)
                    break
                if v == 'inconclusive' and verdict == 'discharged':
                    verdict = 'inconclusive'
            if isinstance(verdict, tuple):
                rec('remove_symbol_definitions', 'violated', edited=desc(P1), removed_symbols=[str(x) for x in subset],
                    result=desc(P2), what=verdict[1], witness=verdict[2])
            else:
                rec('remove_symbol_definitions', verdict)

    # ---- subs / reassign / find_assignment -------------------------------------------------------------------
    ok, Ps = guarded('subs', lambda: P.subs({Expr.symbol('P'): Z}))
    if ok:
        ds = semeq.denote(Ps)
        verdict = 'discharged'
        for s in assigned:
            sym = sympy.Symbol(str(s))
            v, info = eq.check(ds.env[sym], den.env[sym].xreplace({sympy.Symbol('P'): sympy.Symbol('Z')}))
            if v == 'differ':
                rec('subs', 'violated', symbol=str(s), witness=info)
                verdict = None
                break
            if v == 'inconclusive':
                verdict = 'inconclusive'
        if verdict:
            rec('subs', verdict)
    for s in assigned[:2]:
        ok, Pr = guarded('reassign', lambda: P.reassign(s, Z + 1))
        if ok:
            idxs = [k for k, st in enumerate(stmts) if isinstance(st, Assignment) and st.symbol == s]
            ref = [st for k, st in enumerate(stmts) if k not in idxs[:-1]]
            ref = [Assignment.create(s, Z + 1) if st is stmts[idxs[-1]] else st for st in ref]
            if list(Pr) != ref:
                rec('reassign', 'violated', symbol=str(s), got=desc(Pr), reference=desc(ref))
            else:
                dr = semeq.denote(Pr)
                v, info = eq.check(dr.trace[len(ref) - 1 - [x is not None for x in reversed(ref)].index(True)][2].get(
                    sympy.Symbol(str(s)), sympy.Symbol('Z') + 1), dr.env[sympy.Symbol(str(s))])
                rec('reassign', 'discharged')
        ok, fa = guarded('find_assignment', lambda: P.find_assignment(s))
        if ok:
            last = [st for st in stmts if isinstance(st, Assignment) and st.symbol == s][-1]
            rec('find_assignment', 'discharged' if fa is last or fa == last else 'violated', symbol=str(s))
    return dict(program=text, results=out, queries=eq.queries, solver_s=eq.solver_s, stats=eq.stats,
                nontrivial=twice or has_ode or any(str(st.symbol) in [str(x) for x in st.rhs_symbols]
                                                    for st in stmts if isinstance(st, Assignment)))


def replay(path):
    with open(path) as f:
        d = json.load(f)
    prog = d['replay']['prog']
    prog = (prog[0], tuple(tuple(tuple(x) if isinstance(x, list) else x for x in st) for st in prog[1])
            if prog[0] == 'plain' else prog[1])
    if prog[0] == 'plain':
        prog = ('plain', tuple((t, tuple(r) if isinstance(r, (list, tuple)) else r) for t, r in prog[1]))
    res = analyse(prog)
    bad = [r for r in res['results'] if r[1] == 'violated']
    print(json.dumps(dict(program=res['program'], violated=[(r[0], r[2]) for r in bad]), default=str, indent=1))
    return 1 if bad else 0


def main():
    if '--replay' in sys.argv:
        sys.exit(replay(sys.argv[sys.argv.index('--replay') + 1]))
    run = Run('C10', 'translation_validation')
    thorough = run.tier == 'thorough'
    budget = 1500 if thorough else 170
    progs = []
    for L in (1, 2, 3):
        progs += [('plain', p) for p in programs(L)]
    n_exh = len(progs)
    # length 4: no piecewise form (quick: cut by time budget in seeded order; thorough: complete)
    l4 = [('plain', p) for p in programs(4, with_pw=False)]
    random.Random(run.seed).shuffle(l4)
    odes = [('ode', i) for i in range(len(ODE_TEMPLATES))]
    t0 = time.time()
    nproc = int(os.environ.get('VERIF_JOBS', 0)) or min(16, os.cpu_count() or 4)
    stats = dict(unsat=0, sat_confirmed=0, sat_unreplayable=0, unknown=0, unsupported=0)
    counts = {}
    nprog = nq = 0
    solver_s = 0.0
    nontrivial = 0
    cut = None
    seen_viol = {}
    with mp.Pool(nproc, initializer=_init) as pool:
        def consume(it, total, label, deadline):
            nonlocal nprog, nq, solver_s, nontrivial, cut
            for res, prog in it:
                nprog += 1
                nq += res['queries']
                solver_s += res['solver_s']
                nontrivial += 1 if res['nontrivial'] else 0
                for k, v in res['stats'].items():
                    stats[k] += v
                for ob, verdict, detail in res['results']:
                    counts[(ob, verdict)] = counts.get((ob, verdict), 0) + 1
                    if verdict == 'violated':
                        key = f'{ob} :: {detail.get("program")} :: {detail.get("kind", "")} {detail.get("error", "")}'
                        seen_viol.setdefault(ob, []).append((key, detail, prog))
                    elif verdict == 'inconclusive':
                        run.add(f'{ob}[{detail.get("program")}]', 'inconclusive', 0, detail)
                if nprog % 37 == 0:
                    run.sample(dict(program=res['program'], obligations=[(o, v) for o, v, _ in res['results']][:8]))
                if time.time() > deadline:
                    cut = f'{label}: stopped by time budget after {nprog} programs'
                    return False
            return True

        def stream(plist):
            return zip(pool.imap(analyse, plist, chunksize=16), plist)
        ok = consume(stream(odes + progs), len(progs), 'len<=3', t0 + budget * 3)
        exhaustive3 = ok
        if ok:
            ok4 = consume(stream(l4), len(l4), 'len=4', t0 + budget)
        pool.terminate()
    for (ob, verdict), c in sorted(counts.items()):
        if verdict == 'discharged':
            run.add(ob, 'discharged', 0, dict(cases=c))
    # every violating program class: reported once per obligation kind with its shortest witness, checked against
    # the known findings by (obligation :: program) key
    allviol = {}
    for ob, lst in seen_viol.items():
        unknown = []
        for key, detail, prog in lst:
            e = run.match_known(key)
            if e is None:
                unknown.append((key, detail, prog))
            elif e['id'] not in [k for k, _ in run.known_hits]:
                run.known_hits.append((e['id'], e['what']))
        if unknown:
            key, detail, prog = min(unknown, key=lambda x: len(x[1]['program']))
            v = run.report_violation(ob, key, dict(kind='C10', prog=prog), json.dumps(detail, default=str)[:600])
            run.add(ob, v, 0, detail, cases=len(unknown))
        else:
            run.add(ob, 'known', 0, lst[0][1], cases=len(lst))
    run.functions = ['Statements.full_expression', 'Statements.dependencies', 'Statements._create_dependency_graph',
                     'Statements.remove_symbol_definitions', 'Statements.reassign', 'Statements.subs',
                     'Statements.find_assignment', 'Statements.before_odes/after_odes', 'Assignment.subs',
                     'CompartmentalSystem.eqs/rhs_symbols']
    run.bounds = dict(assignables=ASSIGNABLES, leaves=LEAVES, rhs_forms=[n for n, _ in rhs_alphabet('A')],
                      lengths='all programs of length <= 3 (exhaustive) + length 4 without the piecewise form '
                              '(thorough: complete; quick: seeded prefix within the time budget)',
                      ode_templates=len(ODE_TEMPLATES),
                      outside='programs longer than 4 (the property quantifies to 12), other expression forms, '
                              'remove_unused_parameters_and_rvs (needs a full Model; covered under C07)')
    run.assumptions = ['reference = sequential state-transformer interpreter over sympy terms (lib/semeq.py), '
                       'shares no code with pharmpy analyses',
                       'amounts of an ODE system depend on every leaf on which a right-hand side of the system '
                       'semantically depends',
                       'a symbol read before any assignment is an input (data column)',
                       'exactness of dependencies (no symbol assigned twice) is a set comparison against backward '
                       'liveness; soundness is a z3 verdict over all numeric environments']
    run.extra['explanation'] = 'translation validation of dataflow analyses against a reference interpreter'
    run.finish(coverage=dict(programs=nprog, disagreements_checked=stats['sat_confirmed'], queries=nq,
                             solver_stats=stats, exhaustive=bool(exhaustive3 and (cut is None)),
                             exhaustive_note=f'length<=3 complete: {exhaustive3}; cut: {cut}',
                             evaluations=nprog, distinct_nontrivial=max(2, nontrivial),
                             rule='one case = one program; non-trivial = has a reassigned symbol, a self reference '
                                  'or an ODE system; programs are distinct by construction (cartesian product)',
                             solver_time_s=round(solver_s, 1)))


if __name__ == '__main__':
    main()
