"""C20 (partial: one clause) — "covariance, correlation, precision and standard errors reported together satisfy their
defining relations".

NONMEM may write any of the .cov / .cor / .coi files; `pharmpy.tools.external.nonmem.results.calculate_cov_cor_coi_ses`
derives the missing ones.  The REAL function (and through it the real `pharmpy.modeling.calculate_*_from_*`) is executed
on pandas object frames of z3 Real terms (lib/symnum.py) for every availability pattern of its four arguments; the inputs
that are present are consistent views of one symbolic covariance matrix C (correlation R with R_ij s_i s_j = C_ij, standard
errors s_i >= 0 with s_i^2 = C_ii, precision X with X.C = C.X = I).  On every path z3 decides that all four outputs are
present and equal those views: cov' = C, cor' = R, coi'.C = I, se'_i^2 = C_ii, labels preserved, for ALL matrices of size
n <= 3.  `np.linalg.inv` is replaced by its contract; because the inverse of a matrix is unique, the stub returns the
registered partner when it is asked to invert C or X themselves.

Everything else of C20 (table file parsing, row designations, renaming, JSON round trip) is pandas' C reader and DataFrame
indexing and is NOT claimed; a concrete companion probe (sampling) writes .ext / .cov / .cor / .coi / .phi files in NONMEM's
fixed-width format from chosen numbers and compares what the real table readers return.
"""
import itertools
import json
import multiprocessing as mp
import os
import sys
import time

import numpy as np
import z3

sys.path.insert(0, os.path.dirname(os.path.abspath(__file__)))
import symnum  # noqa: E402
import C11_conv as K  # noqa: E402
from vcommon import Run  # noqa: E402
from xhair import Ob, run_probes  # noqa: E402


def patterns():
    """(cov given, cor given, coi given, ses given): what NONMEM can provide; cor never comes without ses, and something
    must be given."""
    out = []
    for cov, cor, coi, ses in itertools.product((0, 1), repeat=4):
        if not (cov or cor or coi):
            continue
        if cor and not ses:
            continue
        if ses and not (cov or cor or coi):
            continue
        out.append((cov, cor, coi, ses))
    return out


def task(t):
    import warnings
    warnings.simplefilter('ignore')
    import pandas as pd
    import pharmpy.modeling.math as mm
    import pharmpy.tools.external.nonmem.results as R
    n, pat = t
    cov_in, cor_in, coi_in, ses_in = pat
    name = f'covstep[n={n},given={"".join(k for k, g in zip(("cov,", "cor,", "coi,", "ses,"), pat) if g).rstrip(",")}]'
    t0 = time.time()
    stats = dict(paths=0, queries=0, unsat=0, sat_confirmed=0, sat_unreplayable=0, unknown=0)
    res = dict(task=t, name=name, verdict='inconclusive', detail=None, stats=stats)
    labels = K.LABELS3[:n]
    C = K._sym_matrix('c', n)
    Rm = K._sym_matrix('r', n)
    X = K._sym_matrix('x', n)
    S = [z3.Real(f's_{i}') for i in range(n)]
    base = [C[i][i] > 0 for i in range(n)]
    base += [z3.And(S[i] > 0, S[i] * S[i] == C[i][i]) for i in range(n)]
    base += [Rm[i][i] == 1 for i in range(n)]
    base += [Rm[i][j] * S[i] * S[j] == C[i][j] for i in range(n) for j in range(i)]
    base.append(K._all_eq(K._matmul(X, C), K._eye(n)))
    base.append(K._all_eq(K._matmul(C, X), K._eye(n)))
    csyms = sorted({C[i][j] for i in range(n) for j in range(n)}, key=str)

    def same(a, M):
        return all(z3.eq(z3.simplify(a[i][j]), z3.simplify(M[i][j])) for i in range(n) for j in range(n))

    class Linalg(K._Linalg):
        def inv(self, a):
            a = np.asarray(a)
            if a.dtype != object:
                return self._real.inv(a)
            A = [[K._t(a[i, j]) for j in range(n)] for i in range(n)]
            c = symnum.ctx()
            if not hasattr(c, 'inv_calls'):
                c.inv_calls = []
            # the inverse is unique: inverting C gives X and inverting X gives C (registered views of one matrix)
            if same(A, C):
                c.inv_calls.append((A, X))
                return K._obj(X)
            if same(A, X):
                c.inv_calls.append((A, C))
                return K._obj(C)
            return super().inv(a)

    class Proxy(K._NpProxy):
        def __init__(self, real):
            self._real = real
            self.linalg = Linalg(real.linalg)

    def frame(m):
        return pd.DataFrame(K._obj(m), index=list(labels), columns=list(labels))

    def series(v):
        return pd.Series(K._objvec(v), index=list(labels))

    def srun():
        out = R.calculate_cov_cor_coi_ses(frame(C) if cov_in else None, frame(Rm) if cor_in else None,
                                          frame(X) if coi_in else None, series(S) if ses_in else None)
        return out

    def goal(out):
        cov, cor, coi, ses = out
        if any(o is None for o in out):
            return z3.BoolVal(False)
        ok = [z3.BoolVal(list(cov.index) == labels and list(cov.columns) == labels),
              z3.BoolVal(list(cor.index) == labels and list(cor.columns) == labels),
              z3.BoolVal(list(coi.index) == labels and list(coi.columns) == labels),
              z3.BoolVal(list(ses.index) == labels)]
        tc, tr, ti, ts = K._terms(cov.values), K._terms(cor.values), K._terms(coi.values), K._terms(ses.values)
        ok.append(K._all_eq(tc, C))
        ok.append(K._all_eq(tr, Rm))
        ok.append(K._all_eq(K._matmul(ti, C), K._eye(n)))
        ok += [z3.And(ts[i] >= 0, ts[i] * ts[i] == C[i][i]) for i in range(n)]
        return z3.And(*ok)

    def num(vals):
        A = K._float_matrix(vals, 'c', n)
        if abs(np.linalg.det(A)) < 1e-6 or np.any(np.diag(A) <= 0):
            return True
        s = np.sqrt(np.diag(A))
        Rf = A / np.outer(s, s)
        Xf = np.linalg.inv(A)

        def ff(a):
            return pd.DataFrame(a, index=list(labels), columns=list(labels))
        cov, cor, coi, ses = R.calculate_cov_cor_coi_ses(ff(A) if cov_in else None, ff(Rf) if cor_in else None,
                                                         ff(Xf) if coi_in else None,
                                                         pd.Series(s, index=list(labels)) if ses_in else None)
        if any(o is None for o in (cov, cor, coi, ses)):
            return False
        if list(cov.index) != labels or list(cor.columns) != labels or list(coi.index) != labels or \
                list(ses.index) != labels:
            return False
        return K._close(cov.values, A, 1e-6) and K._close(cor.values, Rf, 1e-6) and \
            K._close(coi.values @ A, np.eye(n), 1e-5) and K._close(ses.values, s, 1e-6)
    real_np = mm.np
    mm.np = Proxy(np)
    try:
        paths, st = symnum.explore(srun, base=base, max_paths=256, timeout_ms=8000)
        stats['paths'] += st['paths']
        stats['queries'] += st['feasibility_queries']
        if not st['complete']:
            res.update(detail='path budget exceeded')
            return res
        reach, unknown, left, bad = 0, 0, 0, None
        for p in paths:
            if p.error is not None:
                left += 1
                res['error'] = f'{type(p.error).__name__}: {p.error}'[:200]
                s = z3.Solver()
                s.set('timeout', 20000)
                s.add(*base, *p.defs, *p.domain, *p.path)
                if str(s.check()) == 'sat':
                    vals = K._model_floats(s.model(), csyms)
                    mm.np = real_np
                    try:
                        num(vals)
                    except Exception as e:  # noqa
                        bad = (f'raises {type(e).__name__}: {e}', vals)
                        stats['sat_confirmed'] += 1
                    finally:
                        mm.np = Proxy(np)
                    if bad:
                        break
                continue
            w = symnum.witness(p, base)
            if w == 'sat':
                reach += 1
            elif w == 'unknown':
                reach += 1        # nonlinear base: reachability is witnessed numerically below
            r, model = symnum.prove(p, base, goal(p.value), timeout_ms=30000)
            stats['queries'] += 2
            if r == 'unsat':
                stats['unsat'] += 1
            elif r == 'unknown':
                stats['unknown'] += 1
                unknown += 1
            else:
                vals = K._model_floats(model, csyms)
                mm.np = real_np
                try:
                    ok = num(vals)
                except Exception as e:  # noqa
                    ok = False
                    vals['error'] = f'{type(e).__name__}: {e}'
                finally:
                    mm.np = Proxy(np)
                if not ok:
                    stats['sat_confirmed'] += 1
                    bad = ('defining relations violated', vals)
                    break
                stats['sat_unreplayable'] += 1
                unknown += 1
        # numeric reachability witness: the real function on one concrete consistent input must give all four outputs
        mm.np = real_np
        wit = {f'c_{i}{j}': (2.0 + i if i == j else 0.3 * (1 + i + j) / (n + 1)) for i in range(n) for j in range(i + 1)}
        try:
            wit_ok = num(wit)
        except Exception as e:  # noqa
            wit_ok = False
            res['witness_error'] = f'{type(e).__name__}: {e}'
        if bad is None and not wit_ok:
            bad = ('defining relations violated', wit)
            stats['sat_confirmed'] += 1
        if bad is not None:
            res.update(verdict='violated', detail=dict(what=bad[0], values=bad[1]))
        elif left:
            res.update(detail=f'{left} of {len(paths)} paths left the object-array domain: {res.get("error")}')
        elif reach == 0:
            res.update(verdict='vacuous', detail='no reachable path')
        elif unknown:
            res.update(detail=f'{unknown} of {len(paths)} paths undecided')
        else:
            res.update(verdict='discharged', detail=dict(paths=len(paths), reachable=reach))
    except Exception as e:  # noqa
        import traceback
        res.update(verdict='error', detail=f'{type(e).__name__}: {e} {traceback.format_exc()[-400:]}')
    finally:
        mm.np = real_np
        res['solver_s'] = time.time() - t0
    return res


def replay(path):
    import warnings
    warnings.simplefilter('ignore')
    with open(path) as f:
        d = json.load(f)
    rp = d['replay']
    if rp.get('kind') == 'crosshair':
        from xhair import replay_file
        return replay_file(path)
    import pandas as pd
    import pharmpy.tools.external.nonmem.results as R
    n, pat = rp['task']
    vals = rp['values']
    labels = K.LABELS3[:n]
    A = K._float_matrix(vals, 'c', n)
    s = np.sqrt(np.diag(A))
    Rf, Xf = A / np.outer(s, s), np.linalg.inv(A)

    def ff(a):
        return pd.DataFrame(a, index=labels, columns=labels)
    cov, cor, coi, ses = R.calculate_cov_cor_coi_ses(ff(A) if pat[0] else None, ff(Rf) if pat[1] else None,
                                                     ff(Xf) if pat[2] else None,
                                                     pd.Series(s, index=labels) if pat[3] else None)
    ok = all(o is not None for o in (cov, cor, coi, ses)) and K._close(cov.values, A, 1e-6) and \
        K._close(cor.values, Rf, 1e-6) and K._close(coi.values @ A, np.eye(n), 1e-5) and K._close(ses.values, s, 1e-6)
    print(json.dumps(dict(task=rp['task'], ok=bool(ok))))
    return 0 if ok else 1


def main():
    if '--replay' in sys.argv:
        sys.exit(replay(sys.argv[sys.argv.index('--replay') + 1]))
    run = Run('C20', 'other')
    thorough = run.tier == 'thorough'
    tasks = [(n, p) for n in ((1, 2, 3) if thorough else (1, 2, 3)) for p in patterns()]
    nproc = int(os.environ.get('VERIF_JOBS', 0)) or min(16, os.cpu_count() or 4)
    stats = {}
    with mp.Pool(nproc) as pool:
        for r in pool.imap_unordered(task, tasks, chunksize=1):
            for k, v in r['stats'].items():
                stats[k] = stats.get(k, 0) + v
            ob = r['name']
            if r['verdict'] == 'violated':
                d = r['detail']
                v = run.report_violation(ob, f"{ob} :: {d['what']}", dict(kind='C20cov', task=list(r['task']),
                                                                           values=d['values']), f"{d['what']} at {d['values']}")
                run.add(ob, v, r['solver_s'], d)
            elif r['verdict'] in ('vacuous', 'error'):
                run.add(ob, r['verdict'], r['solver_s'], r['detail'])
                run.harness_error(f"{ob}: {r['detail']}")
            else:
                run.add(ob, r['verdict'], r['solver_s'], r['detail'])
    run_probes(run, [(Ob('table_files', 'C20_tables.py', 'table_files', env={}), 'table_files()'),
                     (Ob('results_json', 'C20_tables.py', 'results_json', env={}), 'results_json()'),
                     (Ob('parse_results', 'C20_tables.py', 'parse_results', env={}), 'parse_results()')])
    run.functions = ['tools.external.nonmem.results.calculate_cov_cor_coi_ses', 'modeling.calculate_cov_from_corrse',
                     'calculate_cov_from_prec', 'calculate_corr_from_cov', 'calculate_corr_from_prec',
                     'calculate_prec_from_cov', 'calculate_prec_from_corrse', 'calculate_se_from_cov',
                     'calculate_se_from_prec', 'internals.math.cov2corr']
    run.bounds = dict(matrix_size='n <= 3 (all real symmetric C with positive diagonal and an inverse)',
                      availability='all 9 patterns of (cov, cor+ses, coi, ses) that NONMEM can produce',
                      outside='everything else of C20: NONMEMTableFile / ExtTable / PhiTable / CovTable parsing, row '
                              'designations, renaming, JSON round trip of results (pandas C reader and DataFrame indexing); '
                              'float rounding; a concrete probe (probe:table_files, sampling) covers a fixed set of '
                              'synthetic table files only')
    run.assumptions = ['np.linalg.inv inside pharmpy.modeling.math replaced by its contract (inverse of C is X, of X is C, '
                       'otherwise fresh Y with A.Y = Y.A = I); numpy/pandas object-array semantics trusted; sqrt exact',
                       'inputs that are present are consistent views of one covariance matrix']
    for o in run.obligations[:6]:
        run.sample(dict(obligation=o['name'], verdict=o['verdict']))
    run.finish(coverage=dict(
        explanation='symbolic execution (lib/symnum.py: z3 terms through numpy/pandas object arrays, solver-decided '
                    'branches) of the real calculate_cov_cor_coi_ses for every availability pattern; z3 decides the '
                    'defining relations between the four outputs for all matrices within the size bound; sat models are '
                    'replayed with real numpy',
        queries=stats.get('queries', 0), solver_stats={k: stats.get(k, 0) for k in
                                                      ('unsat', 'sat_confirmed', 'sat_unreplayable', 'unknown')},
        paths_explored=stats.get('paths', 0), exhaustive=True,
        checker_cmd='bin/check C20 --tier quick'))


if __name__ == '__main__':
    main()
