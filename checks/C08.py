"""C08 — structural feature setters are detectable, idempotent, reversible and total.

Sequences of feature requests (MFL alphabet) are run through the REAL setters from corpus start models.  Concrete part
(finite comparison, labelled as such): the detector of the requested category reports the requested feature, independent
categories are unchanged, only refusals of documented kinds occur.  Solver part: z3 decides for all numeric inputs that
requesting the same feature twice gives the same model function as once, and that undoing a feature gives a model
function equal to the one before (statements, dA/dt with compartments matched by dynamics, dose attachments).
"""
import itertools
import json
import multiprocessing as mp
import os
import random
import sys
import time
import traceback

from vcommon import Run

_W = {}
START = ['pheno_real.mod', 'models/mox2.mod', 'modeling/pheno_advan2.mod']

# documented refusal kinds of the modeling API (anything else is an internal error)
REFUSALS = (ValueError, NotImplementedError)


def _init():
    import warnings
    warnings.simplefilter('ignore')
    import corpus
    import sym2smt
    import nmcompare
    import pharmpy.modeling as pm
    sys.path.insert(0, os.path.dirname(os.path.abspath(__file__)))
    import C07
    C07._init()
    _W.update(corpus=corpus, pm=pm, C07=C07, sym2smt=sym2smt, nmcompare=nmcompare)


def features():
    pm = _W['pm']
    return {
        'absorption': {
            'FO': pm.set_first_order_absorption, 'ZO': pm.set_zero_order_absorption,
            'SEQ-ZO-FO': pm.set_seq_zo_fo_absorption, 'INST': pm.set_instantaneous_absorption},
        'elimination': {
            'FO': pm.set_first_order_elimination, 'ZO': pm.set_zero_order_elimination,
            'MM': pm.set_michaelis_menten_elimination, 'MIX-FO-MM': pm.set_mixed_mm_fo_elimination},
        'peripherals': {n: (lambda m, n=n: pm.set_peripheral_compartments(m, n)) for n in (0, 1, 2)},
        'transits': {n: (lambda m, n=n: pm.set_transit_compartments(m, n)) for n in (0, 1, 3)},
        'lagtime': {'ON': pm.add_lag_time, 'OFF': pm.remove_lag_time},
        'bioavailability': {'ON': pm.add_bioavailability, 'OFF': pm.remove_bioavailability},
    }


def detect(m):
    pm = _W['pm']
    ab = [k for k, f in (('FO', pm.has_first_order_absorption), ('ZO', pm.has_zero_order_absorption),
                         ('SEQ-ZO-FO', pm.has_seq_zo_fo_absorption), ('INST', pm.has_instantaneous_absorption)) if f(m)]
    el = [k for k, f in (('FO', pm.has_first_order_elimination), ('ZO', pm.has_zero_order_elimination),
                         ('MM', pm.has_michaelis_menten_elimination), ('MIX-FO-MM', pm.has_mixed_mm_fo_elimination))
          if f(m)]
    return dict(absorption=ab, elimination=el, peripherals=pm.get_number_of_peripheral_compartments(m),
                transits=pm.get_number_of_transit_compartments(m),
                lagtime='ON' if len(pm.get_lag_times(m)) else 'OFF',
                bioavailability='ON' if len(pm.get_bioavailability(m)) else 'OFF')


# categories whose detectors must be unchanged by a request in the key category
INDEPENDENT = {
    # an absorption change keeps the dose's bioavailability (the setters move lag time and bioavailability with the dose)
    'absorption': ['elimination', 'peripherals', 'bioavailability'], 'transits': ['elimination', 'peripherals', 'bioavailability'],
    'lagtime': ['elimination', 'peripherals', 'absorption', 'transits', 'bioavailability'],
    'bioavailability': ['elimination', 'peripherals', 'absorption', 'transits', 'lagtime'],
    'elimination': ['absorption', 'peripherals', 'transits', 'lagtime', 'bioavailability'],
    'peripherals': ['absorption', 'elimination', 'transits', 'lagtime', 'bioavailability'],
}


def detected_ok(cat, val, got):
    """does the detector report the requested feature?  The absorption detectors overlap by design (a sequential
    zero-first-order model also has first-order and zero-order absorption), so membership is required, plus the
    exclusions that make the request specific."""
    if cat == 'absorption':
        if val == 'INST':
            return got == ['INST']
        if val == 'FO':
            return 'FO' in got and 'SEQ-ZO-FO' not in got and 'ZO' not in got
        if val == 'ZO':
            return 'ZO' in got and 'SEQ-ZO-FO' not in got
        return 'SEQ-ZO-FO' in got
    if cat == 'elimination':
        return got == [val]
    return got == val


FAMILY = ('absorption', 'transits', 'lagtime')
# a 'rich' start has the optional dose attributes switched on before the request sequence starts
RICH = (('lagtime', 'ON'), ('bioavailability', 'ON'))


def apply_seq(m, seq):
    F = features()
    for cat, val in seq:
        m = F[cat][val](m)
    return m


def rename_used(m1, m2):
    """parameter correspondence up to naming for the MODEL FUNCTION (observation values, dA/dt, dose attachments):
    identical names correspond; parameters that occur in the outputs of one model only correspond by position (a setter
    may leave an unused parameter / dead statement behind and create a fresh parameter for the same role)."""
    semeq = _W['C07']._W['semeq']

    def out_leaves(m):
        d = semeq.denote(m.statements)
        exprs = [d.env[s] for s in d.env if str(s) in [str(x) for x in m.dependent_variables]] + list(d.odes.values())
        for c in d.comp.values():
            exprs += [c['lag'], c['bio'], c['input']]
        names = set()
        for e in exprs:
            names |= {str(x) for x in e.free_symbols}
        return [p for p in m.parameters.names if p in names]
    l1, l2 = out_leaves(m1), out_leaves(m2)
    ren = {}
    only1 = [p for p in l1 if p not in l2]
    only2 = [p for p in l2 if p not in l1]
    for a, b in zip(only1, only2):
        ren[a] = b
    return ren


def run_case(case):
    if not _W:
        _init()
    start, seq = case
    corpus, C07 = _W['corpus'], _W['C07']
    eq = _W['sym2smt'].Equiv(timeout_ms=15000)
    out = dict(case=case, results=[], status='ok', queries=0, solver_s=0.0, stats={})
    res = []

    def rec(ob, verdict, **d):
        res.append((ob, verdict, d or None))
    try:
        m0 = corpus.load(os.path.join(corpus.TESTDATA, start.replace('+rich', '')))
        if start.endswith('+rich'):
            m0 = apply_seq(m0, RICH)
    except Exception as e:  # noqa
        out['status'] = f'start-unreadable: {type(e).__name__}'
        return out
    F = features()
    try:
        base = apply_seq(m0, seq[:-1])
    except REFUSALS as e:
        out['status'] = f'prefix-refused: {type(e).__name__}: {e}'[:150]
        return out
    except Exception as e:  # noqa -- reported by the case whose LAST request is the failing one
        out['status'] = f'prefix-raised: {type(e).__name__}'
        return out
    cat, val = seq[-1]
    try:
        before = detect(base)
    except Exception as e:  # noqa
        rec('detector', 'violated', error=f'{type(e).__name__}: {e}'[:200], kind='internal error in detector',
            tb=traceback.format_exc()[-400:])
        out['results'] = res
        return out
    # --- totality + detectability (concrete) -----------------------------------------------------------------------
    try:
        m1 = F[cat][val](base)
    except REFUSALS as e:
        out['status'] = f'refused: {type(e).__name__}: {e}'[:150]
        return out
    except Exception as e:  # noqa
        rec('total', 'violated', error=f'{type(e).__name__}: {e}'[:200], kind='internal error',
            tb=traceback.format_exc()[-500:])
        out['results'] = res
        return out
    rec('total', 'discharged')
    try:
        after = detect(m1)
        m1.code       # the result must be a well-formed model whose code can be produced
    except Exception as e:  # noqa
        rec('wellformed', 'violated', error=f'{type(e).__name__}: {e}'[:200], kind='detector/code generation fails '
            'on the returned model', tb=traceback.format_exc()[-400:])
        out['results'] = res
        return out
    # members of the absorption family interact (transit chains need a depot, zero-order input has none ...): their
    # detector clause is only demanded when the other members are in their default state
    fam_default = all(before[c] == d for c, d in (('transits', 0), ('lagtime', 'OFF')) if c != cat) and \
        (cat == 'absorption' or not ({'ZO', 'SEQ-ZO-FO', 'INST'} & set(before['absorption'])))
    if cat in FAMILY and not fam_default:
        rec('detect', 'inconclusive', what='absorption-family members interact; not demanded here')
    elif not detected_ok(cat, val, after[cat]):
        rec('detect', 'violated', requested=(cat, val), detected=after[cat], before=before[cat])
    else:
        rec('detect', 'discharged')
    changed = {c: (before[c], after[c]) for c in INDEPENDENT[cat] if before[c] != after[c]}
    if changed:
        rec('other_categories', 'violated', requested=(cat, val), changed=changed)
    else:
        rec('other_categories', 'discharged')
    # --- idempotence (z3) --------------------------------------------------------------------------------------------
    try:
        m2 = F[cat][val](m1)
        r = C07.compare(m1, m2, rename_used(m1, m2), [], eq, outputs_only=True)
        bad = [(o, d) for o, v, d in r if v == 'violated']
        inc = [o for o, v, d in r if v == 'inconclusive']
        if bad:
            rec('idempotent', 'violated', requested=(cat, val), first=bad[0][0], detail=bad[0][1])
        else:
            rec('idempotent', 'inconclusive' if inc else 'discharged', **({'what': inc[:3]} if inc else {}))
    except REFUSALS as e:
        rec('idempotent', 'inconclusive', refused=f'{type(e).__name__}: {e}'[:120])
    except Exception as e:  # noqa
        rec('idempotent', 'violated', error=f'{type(e).__name__}: {e}'[:200], kind='internal error on repeated request',
            tb=traceback.format_exc()[-400:])
    # --- reversibility (z3): undo = request the previous value of the category -------------------------------------
    prev = before[cat][0] if cat in ('absorption', 'elimination') and len(before[cat]) == 1 else before[cat]
    earlier_family = any(c in FAMILY for c, _ in seq[:-1])
    if isinstance(prev, list) or prev == val or prev not in F[cat]:
        rec('reversible', 'inconclusive', what='no unique previous feature to restore')
    elif cat == 'absorption' or (cat in FAMILY and earlier_family):
        # undoing an absorption change re-parameterises (KA vs 1/MAT) and family members interact: not demanded
        rec('reversible', 'inconclusive', what='absorption family: undo is a re-parameterisation, not demanded')
    else:
        try:
            m3 = F[cat][prev](m1)
            r = C07.compare(base, m3, rename_used(base, m3), [], eq, outputs_only=True)
            bad = [(o, d) for o, v, d in r if v == 'violated']
            inc = [o for o, v, d in r if v == 'inconclusive']
            if bad:
                rec('reversible', 'violated', requested=(cat, val), undo=(cat, prev), first=bad[0][0], detail=bad[0][1])
            else:
                rec('reversible', 'inconclusive' if inc else 'discharged', **({'what': inc[:3]} if inc else {}))
        except REFUSALS as e:
            rec('reversible', 'inconclusive', refused=f'{type(e).__name__}: {e}'[:120])
        except Exception as e:  # noqa
            rec('reversible', 'violated', error=f'{type(e).__name__}: {e}'[:200], kind='internal error on undo',
                tb=traceback.format_exc()[-400:])
    out.update(results=res, queries=eq.queries, solver_s=eq.solver_s, stats=eq.stats)
    return out


def alphabet():
    _init()
    return [(c, v) for c, vals in features().items() for v in vals]


def aba_triples(alpha, starts, seed):
    """a category requested twice with different values and a request of another category in between (the shortest
    sequences in which a stale intermediate representation of one category can influence the other)"""
    out = []
    for s in starts:
        for a in alpha:
            for b in alpha:
                if a[0] == b[0] and a[1] != b[1]:
                    for x in alpha:
                        if x[0] != a[0]:
                            out.append((s, (a, x, b)))
    # ... and three different requests of ONE category in a row (a stale leftover of the first may meet the third)
    for s in starts:
        for a in alpha:
            for b in alpha:
                for c in alpha:
                    if a[0] == b[0] == c[0] and a[1] != b[1] and b[1] != c[1]:
                        out.append((s, (a, b, c)))
    random.Random(seed).shuffle(out)
    return out


def replay(path):
    with open(path) as f:
        d = json.load(f)
    c = d['replay']['case']
    res = run_case((c[0], tuple(tuple(x) for x in c[1])))
    bad = [(o, dd) for o, v, dd in res['results'] if v == 'violated']
    print(json.dumps(dict(case=str(res['case']), status=res['status'], violated=bad), default=str, indent=1))
    return 1 if bad else 0


def main():
    if '--replay' in sys.argv:
        sys.exit(replay(sys.argv[sys.argv.index('--replay') + 1]))
    run = Run('C08', 'translation_validation')
    thorough = run.tier == 'thorough'
    budget = 1500 if thorough else 250
    alpha = alphabet()
    starts = START if thorough else START[:2]
    cases = []
    for s in starts:
        for L in (1, 2):
            for seq in itertools.product(alpha, repeat=L):
                cases.append((s, seq))
    if thorough:
        cases += [(s0 + '+rich', seq) for s0 in START for L in (1, 2) for seq in itertools.product(alpha, repeat=L)]
        l3 = [(START[0], seq) for seq in itertools.product(alpha, repeat=3)]
        random.Random(run.seed).shuffle(l3)
        cases += aba_triples(alpha, START, run.seed) + l3
    else:
        l1 = [c for c in cases if len(c[1]) == 1] + [(START[2], (a,)) for a in alpha] + \
            [(s0 + '+rich', (a,)) for s0 in START[1:] for a in alpha]
        l2 = [c for c in cases if len(c[1]) == 2]
        random.Random(run.seed).shuffle(l2)
        cases = l1 + l2 + aba_triples(alpha, [START[0], START[2]], run.seed)
    nproc = int(os.environ.get('VERIF_JOBS', 0)) or min(16, os.cpu_count() or 4)
    t0 = time.time()
    stats = dict(unsat=0, sat_confirmed=0, sat_unreplayable=0, unknown=0, unsupported=0)
    status, counts = {}, {}
    viol = []
    nq, solver_s, done, compared = 0, 0.0, 0, 0
    cut = None
    with mp.Pool(nproc, initializer=_init) as pool:
        for res in pool.imap_unordered(run_case, cases, chunksize=2):
            done += 1
            st = res['status'].split(':')[0]
            status[st] = status.get(st, 0) + 1
            if not res['results']:
                continue
            compared += 1
            nq += res['queries']
            solver_s += res['solver_s']
            for k, v in res['stats'].items():
                stats[k] += v
            for ob, verdict, detail in res['results']:
                counts[(ob, verdict)] = counts.get((ob, verdict), 0) + 1
                if verdict == 'violated':
                    viol.append((res['case'], ob, detail))
            if done % 37 == 0:
                run.sample(dict(case=str(res['case']), checks=[(o, v) for o, v, _ in res['results']]))
            if time.time() - t0 > budget:
                cut = f'stopped by time budget after {done} of {len(cases)} request sequences'
                break
        pool.terminate()
    for (ob, verdict), c in sorted(counts.items()):
        if verdict == 'discharged':
            run.add(ob, 'discharged', 0, dict(cases=c))
        elif verdict == 'inconclusive':
            run.add(ob, 'inconclusive', 0, dict(cases=c))
    viol.sort(key=lambda x: (len(x[0][1]), str(x[0])))
    reported = set()
    for case, ob, detail in viol:
        seqs = ','.join(f'{c}={v}' for c, v in case[1])
        extra = (detail or {}).get('error', '')
        if ob == 'other_categories':
            extra = 'changed=' + ','.join(sorted((detail or {}).get('changed', {})))
        elif ob in ('reversible', 'idempotent') and not extra:
            extra = 'first=' + str((detail or {}).get('first', ''))
        key = f'{case[0]} :: {seqs} :: {ob} :: {extra}'
        e = run.match_known(key)
        if e is not None:
            if e['id'] not in [k for k, _ in run.known_hits]:
                run.known_hits.append((e['id'], e['what']))
            continue
        cls = (ob, case[1][-1])
        if cls in reported:
            continue
        reported.add(cls)
        v = run.report_violation(f'{ob}:{case[1][-1][0]}={case[1][-1][1]}', key,
                                 dict(kind='C08', case=[case[0], [list(x) for x in case[1]]]),
                                 f'{case}: {ob}: ' + json.dumps(detail, default=str)[:700])
        run.add(f'{ob} @ {case}', v, 0, detail)
    run.functions = ['set_first_order_absorption', 'set_zero_order_absorption', 'set_seq_zo_fo_absorption',
                     'set_instantaneous_absorption', 'set_first_order_elimination', 'set_zero_order_elimination',
                     'set_michaelis_menten_elimination', 'set_mixed_mm_fo_elimination', 'set_peripheral_compartments',
                     'set_transit_compartments', 'add_lag_time', 'remove_lag_time', 'has_* detectors',
                     'get_number_of_peripheral_compartments', 'get_number_of_transit_compartments', 'get_lag_times']
    run.bounds = dict(start_models=starts, alphabet=[f'{c}={v}' for c, v in alpha],
                      sequences='all of length 1; length 2; triples (c=v1, other category, c=v2) and (c=v1, c=v2, c=v3) from an IV and an oral start model (quick: seeded order within budget; thorough: complete for all start models + '
                                'length 3 from the first start model in seeded order)',
                      outside='metabolite/effect/TMDD compartments, the MFL text parser (C18)')
    run.assumptions = ['the detector / other-category clause is a finite concrete comparison, not a solver verdict',
                       'independent categories: elimination and peripherals vs the absorption family (absorption, '
                       'transits, lag time), whose members legitimately interact',
                       'equivalence = C07 comparison (statements, dA/dt matched by dynamics, dose attachments) with z3',
                       'refusals: ValueError / NotImplementedError; any other exception is an internal error']
    run.extra['explanation'] = 'feature setters: detect/total concrete; idempotent/reversible decided by z3'
    run.finish(coverage=dict(programs=compared, disagreements_checked=stats['sat_confirmed'], queries=nq,
                             solver_stats=stats, sequence_status=status, cut=cut, exhaustive=cut is None,
                             evaluations=max(1, done), distinct_nontrivial=max(2, compared),
                             rule='one case = (start model, request sequence); non-trivial = the last request was '
                                  'accepted', solver_time_s=round(solver_s, 1)))


if __name__ == '__main__':
    main()
