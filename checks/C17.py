"""C17 — workflows execute as their task graph specifies: CrossHair obligations over the real WorkflowBuilder /
Workflow / insert_context / execute_workflow; `as_dask_dict()` is evaluated by an evaluator of the dask graph
specification and compared with a sequential reference evaluation of the declared graph.  Counterexamples are replayed
concretely and then once more on the real `dask.threaded.get` before they are reported."""
import json
import os
import sys

from vcommon import Run
from xhair import Ob, replay_call, replay_file, run_obligations

H = 'C17_workflow.py'
EXEC_FUNCS = ('exec_add', 'exec_context', 'replace_task', 'replace_then_gather', 'insert_workflow', 'add_operator',
              'static_str_inputs')


def confirm(ob, call, rep):
    """Second stage: the same obligation on the real threaded dask scheduler with the real uuid4."""
    if ob.func not in EXEC_FUNCS:
        return dict(ok=False, note='structural obligation: the concrete replay ran the real builder code (no '
                                   'evaluator involved)')
    ob2 = Ob(ob.name, ob.file, ob.func, env=dict(ob.env, VH_REAL_DASK=1))
    r = replay_call(ob2, call)
    r['note'] = 'replayed on dask.threaded.get with real uuid4'
    return r


def bits(k):
    return [format(i, f'0{k}b') for i in range(2 ** k)] if k else ['']


def build(thorough):
    T = 1200 if thorough else 400
    obs = []

    def add(func, label, env, t=T):
        obs.append(Ob(f'{func}[{label}]' if label else func, H, func, t, env=env))

    nmax = 5 if thorough else 4
    # pin depth of the leading edge booleans per number of tasks (keeps every process below ~1/3 of its budget)
    for func, pins, top in (('exec_add', {4: 2, 5: 5}, nmax), ('exec_context', {4: 2, 5: 6}, nmax),
                            ('replace_task', {4: 2}, 4),
                            ('replace_then_gather', {3: 1, 4: 4}, 4 if thorough else 3)):
        for n in range(1, top + 1):
            for e in bits(pins.get(n, 0)):
                env = dict(VH_N=n, VH_EPIN=e)
                label = f'N={n}' + (f',E={e}' if e else '')
                if func == 'exec_context' and n == 5:
                    env['VH_CPIN'] = 'xxx00'        # t3, t4 never take `context` (cost)
                    label += ',ctx=xxx00'
                add(func, label, env)
    # static-input arities 0,2,1,3,0 (shape B), predecessor lists in canonical form
    for n in ((4, 5) if thorough else (4,)):
        for e in bits(1 if n == 4 else 3):
            add('exec_add', f'N={n},shape=B,E={e}', dict(VH_N=n, VH_EPIN=e, VH_SHAPE='B', VH_VARIANTS=0))
    for n in ((2, 3, 4) if thorough else (2, 3)):
        for e in bits(3 if n == 4 else 0):
            add('insert_context_structure', f'N={n}' + (f',E={e}' if e else ''), dict(VH_N=n, VH_EPIN=e))
    # insert_workflow: (NA, NB, PM, A-edge pins)
    if thorough:
        iw = [(a, b, pm, ap) for a in (1, 2, 3) for b in (1, 2, 3) for pm in (0, 1, 2, 3)
              for ap in (bits(3) if (a == 3 and pm == 2 and b > 1) else bits(1) if (a == 3 and pm == 1 and b == 3)
                         else [''])]
    else:
        iw = [(1, 1, 0, ''), (2, 2, 0, ''), (3, 3, 0, ''), (2, 3, 1, ''), (3, 3, 1, '0'), (3, 3, 1, '1'), (2, 2, 3, ''),
              (3, 3, 3, '0'), (3, 3, 3, '1'),
              (2, 3, 2, ''), (3, 2, 2, '000'), (3, 3, 2, '000'), (3, 3, 2, '110')]
    for a, b, pm, ap in iw:
        add('insert_workflow', f'NA={a},NB={b},PM={pm}' + (f',A={ap}' if ap else ''),
            dict(VH_NA=a, VH_NB=b, VH_PM=pm, VH_APIN=ap))
    if thorough:
        ao = [(a, b, ap) for a in (1, 2, 3) for b in (1, 2, 3) for ap in (bits(2) if (a, b) == (3, 3) else [''])]
    else:
        ao = [(2, 2, ''), (3, 2, ''), (2, 3, '')]
    for a, b, ap in ao:
        add('add_operator', f'NA={a},NB={b}' + (f',A={ap}' if ap else ''), dict(VH_NA=a, VH_NB=b, VH_APIN=ap))
    # string inputs: unrestricted (reproduces the known finding: input equal to the dask key 'results') and with
    # exactly that input class excluded
    add('keys_unique', '', {})
    add('replicates', '', {})
    add('exec_models', '', {})
    add('static_str_inputs', '', dict(VH_MAXSTR=12 if thorough else 8))
    add('static_str_inputs', 'excl_results', dict(VH_MAXSTR=12 if thorough else 8, VH_EXCL_RESULTS=1))
    # reachability twins
    tw = dict(VH_N=4, VH_NA=2, VH_NB=2, VH_PM=0)
    for f in ('exec_add', 'exec_context', 'insert_context_structure', 'replace_task', 'replace_then_gather',
              'insert_workflow', 'add_operator', 'static_str_inputs', 'keys_unique', 'replicates', 'exec_models'):
        obs.append(Ob(f'{f}__twin', H, f + '__twin', 120, kind='twin', env=tw))
    # longest first
    heavy = {'insert_workflow': 0, 'exec_context': 1, 'replace_task': 2, 'add_operator': 3, 'exec_add': 4}
    obs.sort(key=lambda o: (o.kind == 'twin', -int(o.env.get('VH_N', 0)) - int(o.env.get('VH_NA', 0))
                            - int(o.env.get('VH_NB', 0)), heavy.get(o.func, 5)))
    return obs, nmax, iw, ao


def key_of(ob, call, rep):
    return f'{ob.name} {call}'


def main():
    if '--replay' in sys.argv:
        sys.exit(replay_file(sys.argv[sys.argv.index('--replay') + 1]))
    run = Run('C17', 'other')
    extra = os.environ.get('VERIF_EXTRA_KNOWN')
    if extra:       # development aid: additional known-finding entries (same format as known_findings.json)
        with open(extra) as f:
            run.known += [e for e in json.load(f).get('findings', []) if e.get('property') == 'C17']
    thorough = run.tier == 'thorough'
    obs, nmax, iw, ao = build(thorough)
    run.functions = ['WorkflowBuilder.__init__', 'WorkflowBuilder.add_task', 'WorkflowBuilder.insert_workflow',
                     'WorkflowBuilder.replace_task', 'WorkflowBuilder.__add__', 'Workflow.__init__',
                     'Workflow.__add__', 'Workflow.as_dask_dict', 'WorkflowBase.tasks/input_tasks/output_tasks/'
                     'get_predecessors/get_successors/__len__', 'insert_context', 'execute_workflow (task rewriting, '
                     'insert_context, dispatch)', 'Task.__init__/replace']
    run.bounds = dict(
        tasks=f'<= {nmax} tasks t0..t{nmax - 1}, every edge set over i<j (all DAGs up to relabelling), symbolic',
        static_inputs='unbounded symbolic ints, one per task (shape A) or arities 0,2,1,3,0 (shape B); strings '
                      f'of <= {12 if thorough else 8} arbitrary characters on a 3-task family',
        add_task='predecessor lists ascending or reversed, a lone predecessor as list or as Task',
        context='every subset of tasks taking `context`' + (' (5 tasks: subsets of t0..t2 only)' if thorough else '')
                + ', symbolic context value, through the real execute_workflow',
        replace_task='every task position, <= 4 tasks',
        replace_then_gather='add tasks, (observe), replace one, gather all current sinks by add_task / insert_workflow; '
                            '<= 3 tasks (thorough 4), every position, observations on/off',
        insert_context_structure=f'<= {4 if thorough else 3} tasks',
        insert_workflow='A and B of <= 3 tasks each with symbolic edges; predecessors None / one Task / non-empty '
                        'sublist of A ascending or reversed; cases (NA, NB, predecessors mode 0 None/1 Task/2 list, '
                        'pinned A edges a01a02a12): ' + ('all 27 size/mode combinations, A edges symbolic or '
                                                         'exhaustively pinned' if thorough else str(iw)),
        add_operator_cases='all 9 size combinations' if thorough else str(ao),
        add_operator='A, B of <= 3 tasks, disjoint or sharing one task, builder+workflow and workflow+workflow',
        outside='more tasks; the dask schedulers themselves (result of a pure dataflow graph is schedule independent '
                'by dask\'s contract; counterexamples are replayed on dask.threaded.get); '
                'optimize_task_graph_for_dask_distributed / call_workflow (distributed client); static inputs that '
                'are tuples/lists/Model objects; task functions with side effects; results handling after dispatch')
    run.assumptions = [
        'spec_get: 30-line evaluator of the dask graph specification (key / task tuple / list / literal, each key '
        'computed once, cycle = error) stands for the dask scheduler during symbolic execution',
        'uuid.uuid4 in pharmpy.workflows.workflow replaced by a deterministic counter of the same shape (CrossHair '
        're-executes paths); uniqueness and unguessability of uuid4 assumed (strings <= 12 chars cannot equal a '
        '`name-uuid` key)',
        'networkx Graph/DiGraph dict factories rebound from `dict` to a function returning `{}`: under CrossHair a '
        '`dict()` call yields a mapping that does not raise TypeError on unhashable keys, which add_nodes_from '
        '(DiGraph.copy) relies on; identical behaviour outside CrossHair',
        'dispatcher stub for execute_workflow: run(workflow, context) evaluates workflow.as_dask_dict(); context is '
        'an opaque symbolic int',
        'entry order: add_task appends; a replaced task (replace_task, insert_context, execute_workflow rewriting) '
        'leaves and its replacement enters last (DESIGN.md C17)',
        'a counterexample is reported only if it reproduces concretely and, for executing obligations, on the real '
        'dask.threaded.get with the real uuid4',
    ]
    run_obligations(run, obs, confirm=confirm, key_of=key_of)
    for o in obs:
        if o.kind == 'prop':
            run.sample(dict(obligation=o.name, harness=o.file, func=o.func, env=o.env), cap=12)
    nd = sum(1 for o in run.obligations if o['verdict'] == 'discharged')
    run.extra['timing_s'] = {o['name']: [o['verdict'], o['solver_s']] for o in run.obligations}
    run.finish(coverage=dict(
        explanation='bounded symbolic execution (CrossHair/z3) of the real workflow builder/graph code: every '
                    f'obligation enumerates ALL paths over symbolic edge sets of <= {nmax} tasks, symbolic static '
                    'inputs and builder-operation choices and was "Confirmed over all paths"; the concrete case '
                    'split (number of tasks, pinned leading edges, operand sizes) is exhaustive within the stated '
                    f'bounds; {nd} obligations discharged',
        checker_cmd='crosshair check --report_all --per_condition_timeout T harness/C17_workflow.py:LINE'))


if __name__ == '__main__':
    main()
