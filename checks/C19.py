"""C19 — ranking, strictness, information criteria and likelihood-ratio functions (the solver-reachable part).

  * CrossHair obligations (harness/C19_rank.py) over the real rank_models / get_rankval / is_strictness_fulfilled /
    lrt.degrees_of_freedom, cutoff, test, best_of_two with numpy/pandas/scipy replaced by contract stubs;
  * z3-term obligations (harness/C19_criteria.py): a z3 Real likelihood is passed through the real calculate_aic /
    calculate_bic / lrt.test / lrt.p_value on corpus models and compared with the documented formula.
"""
import json
import os
import subprocess
import sys

from vcommon import Run, VERIF
from xhair import Ob, PY, replay_file, run_obligations

H = 'C19_rank.py'
CRIT = os.path.join(VERIF, 'harness', 'C19_criteria.py')


def bits(k, free='x'):
    return [format(i, f'0{k}b') for i in range(2 ** k)] if k else ['']


def build(thorough):
    T = 1200 if thorough else 400
    obs = []

    def add(func, label, env, t=T):
        obs.append(Ob(f'{func}[{label}]' if label else func, H, func, t, env=env))

    all_rt = ['ofv', 'aic', 'bic:mixed', 'bic:fixed', 'bic:random', 'bic:iiv']
    # (candidates, rank types, strictness-flag patterns pinned per process; '' = all flags symbolic)
    if thorough:
        plan = [(1, all_rt, ['']), (2, all_rt, ['']), (3, all_rt, bits(2)), (4, ['ofv', 'aic', 'bic:mixed'], bits(5))]
    else:
        plan = [(1, ['ofv'], ['']), (2, all_rt, ['']),
                (3, ['ofv', 'aic', 'bic:mixed'], ['00', '01', '10', '1100', '1101', '1110', '1111'])]
    for nc, rts, pats in plan:
        for rt in rts:
            for ok in pats:
                env = dict(VH_NC=nc, VH_RT=rt, VH_OK=ok)
                label = f'NC={nc},{rt}' + (f',ok={ok}' if ok else '')
                if (nc >= 4 and ok.count('1') >= 4) or (nc == 3 and ok == '1111'):
                    # the expensive corner (nearly all models eligible): also split on cut-off / penalties present
                    for cp in bits(2):
                        add('rank', label + f',cut={cp[0]},pen={cp[1]}', dict(env, VH_CUT=cp[0], VH_PEN=cp[1]))
                else:
                    add('rank', label, env)
    # LRT branch: (candidates, parents, cutoff mode, ok pins, no-NaN)
    if thorough:
        lrt = [(1, 'base', cm, '', 0) for cm in (0, 1, 2)]
        lrt += [(2, par, cm, ok, 0) for par in ('base', 'chain', 'sym', 'symobj') for cm in (0, 1, 2)
                for ok in bits(1)]
        lrt += [(3, par, cm, ok, 1) for par, cm in (('base', 0), ('chain', 1)) for ok in bits(4)]
    else:
        heavy = ['00', '01', '10', '110', '111']
        lrt = [(1, 'base', cm, '', 0) for cm in (0, 1, 2)]
        lrt += [(2, 'base', cm, ok, 0) for cm in (0, 1, 2) for ok in bits(1)]
        lrt += [(2, 'chain', 1, ok, 0) for ok in bits(1)]
        lrt += [(2, 'sym', 0, ok, 0) for ok in heavy] + [(2, 'symobj', 2, ok, 0) for ok in heavy]
    for nc, par, cm, ok, nonan in lrt:
        add('rank_lrt', f'NC={nc},parents={par},cutoff_mode={cm}' + (f',ok={ok}' if ok else '')
            + (',no_nan' if nonan else ''),
            dict(VH_NC=nc, VH_RT='lrt', VH_PAR=par, VH_CM=cm, VH_OK=ok, VH_NONAN=nonan))
    add('rank_refusals', '', {})
    add('lrt_two', '', {})
    add('strictness_edges', '', {})
    add('strictness_float', '', {})
    add('strictness_class', '', {})
    slevel = 2 if thorough else 1
    nchunks = 24 if thorough else 10
    for i in range(nchunks):
        add('strictness', f'connectives<={slevel},chunk={i}/{nchunks}', dict(VH_SLEVEL=slevel, VH_CHUNK=f'{i}/{nchunks}'))
    tw = dict(VH_NC=2, VH_SLEVEL=1)
    for f in ('rank', 'rank_refusals', 'lrt_two', 'strictness', 'strictness_edges', 'strictness_float', 'strictness_class'):
        obs.append(Ob(f'{f}__twin', H, f + '__twin', 120, kind='twin', env=tw))
    obs.append(Ob('rank_lrt__twin', H, 'rank_lrt__twin', 120, kind='twin', env=dict(VH_NC=2, VH_RT='lrt')))
    # most expensive first: many candidates, many eligible models
    obs.sort(key=lambda o: (o.kind == 'twin', -int(o.env.get('VH_NC', 0)) - str(o.env.get('VH_OK', '')).count('1')
                            - (4 if str(o.env.get('VH_PAR', '')).startswith('sym') else 0), o.func != 'rank_lrt'))
    return obs, plan, lrt, slevel


def confirm(ob, call, rep):
    return dict(ok=False, note='the concrete replay ran the real rank_models/get_rankval/is_strictness_fulfilled/lrt '
                               'code over the contract stubs (pure Python: the stubs only carry values)')


def run_criteria(run, tier):
    """z3-term obligations: one helper process, one JSON line per obligation."""
    env = dict(os.environ)
    env['PYTHONPATH'] = os.pathsep.join([os.path.join(VERIF, 'lib'), os.path.join(VERIF, 'harness'),
                                         env.get('PYTHONPATH', '')])
    try:
        p = subprocess.run([PY, '-W', 'ignore', CRIT, tier], capture_output=True, text=True, env=env, timeout=900)
    except subprocess.TimeoutExpired:
        run.harness_error('C19_criteria.py timed out')
        return {}
    info = {}
    n = 0
    for line in p.stdout.splitlines():
        try:
            d = json.loads(line)
        except ValueError:
            continue
        if 'corpus' in d:
            info = d
            continue
        n += 1
        name, v = d['name'], d['verdict']
        if v == 'violated':
            key = f'{name} {d["detail"]}'
            v = run.report_violation(name, key, dict(kind='z3term', harness='C19_criteria.py', func=d['func'],
                                                     args=d['args'], tier=tier, name=name), d['detail'])
            run.add(name, v, d['time'], d['detail'])
        elif v in ('vacuous', 'error'):
            run.add(name, v, d['time'], d['detail'])
            run.harness_error(f'{name}: {v} {d["detail"]}')
        else:
            run.add(name, v, d['time'], d['detail'] or None)
    if n == 0:
        run.harness_error('C19_criteria.py produced no obligations: ' + (p.stderr or '')[-400:])
    return info


def replay(path):
    with open(path) as f:
        d = json.load(f)
    rp = d['replay']
    if rp.get('kind') != 'z3term':
        return replay_file(path)
    env = dict(os.environ)
    env['PYTHONPATH'] = os.pathsep.join([os.path.join(VERIF, 'lib'), os.path.join(VERIF, 'harness'),
                                         env.get('PYTHONPATH', '')])
    p = subprocess.run([PY, '-W', 'ignore', CRIT, rp.get('tier', 'thorough'), rp['name']], capture_output=True,
                       text=True, env=env, timeout=600)
    bad = False
    for line in p.stdout.splitlines():
        try:
            r = json.loads(line)
        except ValueError:
            continue
        if r.get('name') == rp['name']:
            print(json.dumps(r))
            bad = r['verdict'] == 'violated'
    return 1 if bad else 0


def main():
    if '--replay' in sys.argv:
        sys.exit(replay(sys.argv[sys.argv.index('--replay') + 1]))
    run = Run('C19', 'other')
    extra = os.environ.get('VERIF_EXTRA_KNOWN')
    if extra:       # development aid: additional known-finding entries (same format as known_findings.json)
        with open(extra) as f:
            run.known += [e for e in json.load(f).get('findings', []) if e.get('property') == 'C19']
    thorough = run.tier == 'thorough'
    obs, plan, lrt, slevel = build(thorough)
    run.functions = ['tools.run.rank_models', 'tools.run.get_rankval', 'tools.run.is_strictness_fulfilled',
                     'tools.run.ArrayEvaluator', 'modeling.lrt.degrees_of_freedom', 'modeling.lrt.cutoff',
                     'modeling.lrt.test', 'modeling.lrt.best_of_two', 'modeling.lrt.p_value',
                     'modeling.calculate_aic', 'modeling.calculate_bic (mixed, fixed, random, iiv)',
                     'modeling.results._categorize_parameters (through calculate_bic)']
    info = run_criteria(run, run.tier)
    run.bounds = dict(
        rank_models=[f'base + {nc} candidates, rank types {rts}' for nc, rts, _ in plan],
        rank_values='objective values, penalties, cut-off and criterion weights are unbounded symbolic INTEGERS; NaN / '
                    'failed strictness is a symbolic flag per model; penalties and cut-off present or None',
        lrt=[f'base + {nc} candidates, parents={par}, cutoff mode {cm} (0 None, 1 scalar, 2 (forward, backward))'
             + (', no NaN OFVs' if nn else '') for nc, par, cm, _, nn in sorted(set((a, b, c, '', e)
                                                                                   for a, b, c, _, e in lrt))],
        lrt_parameter_counts='0..3 per model (lrt_two: 0..6), symbolic',
        strictness=f'atoms minimization_successful, rounding_errors, maxevals_exceeded, final_zero_gradient, '
                   f'sigdigs/rse with each comparison operator; not/and/or/parentheses with <= {slevel} binary '
                   f'connectives and integer thresholds; result attributes symbolic (bools, termination cause, '
                   f'integer sigdigs, 2 integer RSEs, NaN flag); the documented examples with thresholds 0.1 / 0.4: '
                   f'sigdigs and RSEs from 5-value tables around the threshold (symbolic index)',
        criteria_corpus=info.get('corpus'),
        outside='floating point rounding and float-valued OFVs in rank_models (ints only: CrossHair does not confirm '
                'the float version); pandas itself (DataFrame construction, sort_values, idxmin: contract stub); '
                'strictness atoms that need numpy (condition_number, estimate_near_boundary*); the per-class atoms '
                'rse_theta/omega/sigma and final_zero_gradient_theta/omega/sigma run over a contract model of the '
                'pandas Series operations they use (strictness_class); summarize_tool/create_results around rank_models; '
                'calculate_bic_penalty (mBIC search-space terms); lrt.best_of_many (numpy nanargmin); more than '
                f'{max(p[0] for p in plan)} candidates; bootstrap / cdd / simeval / shrinkage / delta-method '
                'statistics (numpy/pandas pipelines, not reachable by the solver) — this is why the claim is partial')
    run.assumptions = [
        'np in pharmpy.tools.run -> FakeNp: nan is an object with IEEE NaN semantics (absorbing, all comparisons '
        'False, != True), isnan(x) = (x != x)',
        'pd in pharmpy.tools.run -> Index = list, DataFrame = recorder; DataFrame.sort_values modelled by the pandas '
        'contract (NaN last, stable); "best" = first row of minimal rank (Series.idxmin contract)',
        'rank obligations: is_strictness_fulfilled -> per-model symbolic flag; calculate_aic/calculate_bic -> integer '
        'criterion ofv + w*k_model (w = 2 / 3,5,7,11 per BIC type) so that the real get_rankval selects and forwards '
        'them; the real functions are checked separately (strictness obligations, z3-term obligations)',
        'scipy.stats in pharmpy.modeling.lrt -> chi2.isf(q, df) = Q[q] + 2*df over integers (Q = {0.05:4, 0.01:7, '
        '0.001:11, 0.1:3, 0.2:2}); float() in pharmpy.modeling.lrt -> identity',
        'models = objects with name and a sized `parameters`; results = objects with the attributes read',
        'strictness_class: relative_standard_errors / gradients -> FSeries, a contract model of pandas.Series '
        '(index.isin, boolean-mask selection, reindex with NaN for missing labels, == scalar, isnull, any, '
        'iteration) holding entries for the estimated parameters only; get_thetas/get_omegas/get_sigmas -> name lists',
        'cut-off boundary: a candidate whose delta EQUALS the cut-off is not ranked (code: `delta <= cutoff` is '
        'excluded; docs/modelsearch.rst says "not rank candidates with dOFV < cutoff"); LRT: dOFV >= cutoff passes',
        'base model failing strictness together with a cut-off: whether the cut-off applies is left open (no delta '
        'exists); only the ranking among the ranked candidates is demanded',
        'z3-term obligations: parameter counts from an own reader of the $THETA/$OMEGA/$SIGMA records of '
        'model.code, individuals/observations from an own reader of the data file, random/fixed split by hand from '
        'the control streams, chi-square by an own incomplete-gamma implementation; tolerance 1e-9 (BIC) and a 1e-6 '
        'band around the LRT cut-off; scipy.stats.chi2 is real there (p_value: recorder + 5 concrete anchors)',
    ]
    run_obligations(run, obs, confirm=confirm)
    # concrete companion (sampling, not a solver verdict; the statistics clause is not claimed): resampling / diagnostic
    # statistics on fixed synthetic estimates vs their defining formulas in plain Python arithmetic
    from xhair import run_probes
    run_probes(run, [(Ob('statistics', 'C19_stats.py', 'statistics', env={}), 'statistics()')])
    for o in obs:
        if o.kind == 'prop':
            run.sample(dict(obligation=o.name, harness=o.file, func=o.func, env=o.env), cap=10)
    run.sample(dict(obligation='bic[pheno,mixed]', harness='C19_criteria.py',
                    claim='forall real L: |calculate_bic(pheno, L, "mixed") - (L + 5*log(59) + 1*log(155))| <= 1e-9'))
    run.sample(dict(obligation='lrt_test[pheno_linear->pheno,0.05]', harness='C19_criteria.py',
                    claim='forall real Lp, Lc: test(...) <=> Lp - Lc >= chi2.isf(0.05, 3) (outside a 1e-6 band)'))
    nd = sum(1 for o in run.obligations if o['verdict'] == 'discharged')
    run.extra['timing_s'] = {o['name']: [o['verdict'], o['solver_s']] for o in run.obligations}
    run.finish(coverage=dict(
        explanation='partial claim. (1) bounded symbolic execution (CrossHair/z3) of the real rank_models, '
                    'get_rankval, is_strictness_fulfilled and lrt functions over symbolic integer objective values, '
                    'flags, penalties, cut-offs, parameter counts and parent maps, every obligation "Confirmed over '
                    'all paths"; (2) z3 Real likelihoods passed through the real calculate_aic / calculate_bic / '
                    'lrt.test / lrt.p_value on corpus models, equality with the documented formula decided by z3 '
                    f'(unsat of the negation) with independently derived counts. {nd} obligations discharged. The '
                    'resampling/diagnostic statistics of the property are not covered (see bounds.outside).',
        checker_cmd='crosshair check --report_all --per_condition_timeout T harness/C19_rank.py:LINE ; '
                    'python harness/C19_criteria.py <tier>'))


if __name__ == '__main__':
    main()
