"""C04 — parameter and random-effect edits are written back exactly (E1, mechanism level).

Number -> text -> number goes through str(float)/lark and numpy; that part is outside (see bounds.outside). The solver
decides the bookkeeping the property's failure modes live in (harness/C04_*.py):
  1  lcs.diff                       the edit script reproduces old and new and keeps a LONGEST common subsequence
  2  update.reorder_diff            the reordered script is a permutation that keeps the old side in order
  3  update.update_thetas           over contract stubs of ThetaRecord: every layout x every edit -> name-keyed result
  4  update.update_random_variables over contract stubs of OmegaRecord with real distributions / RandomVariables /
                                    Parameters / lcs.diff: every layout x every edit -> positional (ETA(i)) result
  5  parsing.parameters_from_blocks / rvs_from_blocks: OMEGA(r,c) / ETA(i) numbering for every block layout;
     triangular_root: z3 integer lemma
  6  the REAL records (harness/C04_records.py): ThetaRecord.update/remove and OmegaRecord.update/remove on records
     created from a table of concrete $THETA / $OMEGA / $SIGMA texts, one edit per path, read back by the independent
     reference reader lib/nmref.py and by pharmpy itself; spelling of everything that was not changed is compared
     byte for byte.  Defect regions found there are the `finding_*[records]` obligations.
"""
import os
import re
import sys
import time

from vcommon import Run
from xhair import Ob, replay_file, run_obligations

LCS, UPD, BLK, REC = 'C04_lcs.py', 'C04_update.py', 'C04_blocks.py', 'C04_records.py'
N_THETA = N_OMEGA = None      # sizes of the layout tables of harness/C04_records.py for this tier (set by _table_sizes)
REC_FINDINGS = (('theta_repeat_member', 'theta_update'), ('theta_repeat_low_init', 'theta_update'),
                ('theta_repeat_fix', 'theta_update'), ('theta_fix_inside_bounds', 'theta_update'),
                ('theta_remove_counts_tokens', 'theta_remove'), ('omega_split_fixed_repeat', 'omega_update'),
                ('omega_remove_counts_tokens', 'omega_remove'))


def _table_sizes(thorough):
    """number of $THETA / $OMEGA+$SIGMA record texts the harness holds for this tier (read from the harness itself, so
    that a table that grows is never silently cut by the case split)"""
    global N_THETA, N_OMEGA
    os.environ['VH_TIER'] = 'thorough' if thorough else 'quick'
    try:
        import C04_records as R
    finally:
        del os.environ['VH_TIER']
    N_THETA, N_OMEGA = len(R.THETA_LAYOUTS), len(R.OMEGA_LAYOUTS)


def build(thorough):
    T = 1500 if thorough else 200
    _table_sizes(thorough)
    obs = []

    def ob(name, file, func, env, timeout=T, kind='prop'):
        obs.append(Ob(name, file, func, timeout, kind=kind, env=dict(env)))

    # 1 lcs.diff --------------------------------------------------------------------------------------------------------
    n = 4 if thorough else 3
    for lo in range(n + 1):
        for ln in range(n + 1):
            if lo == 4 and ln == 4:
                for a in range(3):
                    for b in range(3):
                        for c in range(3):
                            ob(f'lcs.diff[len={lo},{ln},head={a}{b}{c}]', LCS, 'diff_ok',
                               dict(VH_N=n, VH_LENOLD=lo, VH_LENNEW=ln, VH_HEAD=f'{a},{b},{c}'))
            elif lo + ln >= 7:
                for a in range(3):
                    for b in range(3):
                        ob(f'lcs.diff[len={lo},{ln},head={a}{b}]', LCS, 'diff_ok',
                           dict(VH_N=n, VH_LENOLD=lo, VH_LENNEW=ln, VH_HEAD=f'{a},{b}'))
            elif lo + ln >= 5:
                for a in range(3):
                    ob(f'lcs.diff[len={lo},{ln},head={a}]', LCS, 'diff_ok',
                       dict(VH_N=n, VH_LENOLD=lo, VH_LENNEW=ln, VH_HEAD=f'{a}'))
            else:
                ob(f'lcs.diff[len={lo},{ln}]', LCS, 'diff_ok', dict(VH_N=n, VH_LENOLD=lo, VH_LENNEW=ln))
    # 2 reorder_diff ------------------------------------------------------------------------------------------------------
    m = 4 if thorough else 3
    for ln in range(m + 1):
        if ln <= 2:
            ob(f'reorder_diff[len={ln}]', LCS, 'reorder_ok', dict(VH_N=m, VH_LEN=ln))
        elif ln == 3:
            for o0 in (-1, 0, 1):
                ob(f'reorder_diff[len=3,op0={o0}]', LCS, 'reorder_ok', dict(VH_N=m, VH_LEN=3, VH_OPS=f'{o0}'))
        else:
            for o0 in (-1, 0, 1):
                for o1 in (-1, 0, 1):
                    ob(f'reorder_diff[len=4,ops={o0},{o1}]', LCS, 'reorder_ok',
                       dict(VH_N=m, VH_LEN=4, VH_OPS=f'{o0},{o1}'))
    # 3 update_thetas ------------------------------------------------------------------------------------------------------
    for k in range(4):
        ob(f'update_thetas[k={k},added<=2]', UPD, 'thetas_ok', dict(VH_K=k, VH_MAXINS=2))
    if thorough:
        for c in range(8):
            ob(f'update_thetas[k=4,added<=2,layout={c}]', UPD, 'thetas_ok', dict(VH_K=4, VH_MAXINS=2, VH_CLO=c, VH_CHI=c + 1))
        for c in range(16):
            ob(f'update_thetas[k=5,added<=1,layout={c}]', UPD, 'thetas_ok', dict(VH_K=5, VH_MAXINS=1, VH_CLO=c, VH_CHI=c + 1))
    # 4 update_random_variables ------------------------------------------------------------------------------------------
    for k in range(2):
        ob(f'update_random_variables[k={k},added<=2]', UPD, 'omegas_ok', dict(VH_K=k, VH_MAXINS=2))
    for lo in range(0, 10, 4):
        ob(f'update_random_variables[k=2,added<=2,layouts={lo}..{min(lo + 3, 9)}]', UPD, 'omegas_ok',
           dict(VH_K=2, VH_MAXINS=2, VH_LLO=lo, VH_LHI=lo + 4))
    if thorough:
        for lay in range(34):
            ob(f'update_random_variables[k=3,added<=2,layout={lay}]', UPD, 'omegas_ok',
               dict(VH_K=3, VH_MAXINS=2, VH_LLO=lay, VH_LHI=lay + 1))
        for lo in range(0, 115, 5):
            ob(f'update_random_variables[k=4,added<=1,layouts={lo}..{lo + 4}]', UPD, 'omegas_ok',
               dict(VH_K=4, VH_MAXINS=1, VH_LLO=lo, VH_LHI=lo + 5))
    else:
        for lo in range(0, 34, 6):
            ob(f'update_random_variables[k=3,added<=1,layouts={lo}..{min(lo + 5, 33)}]', UPD, 'omegas_ok',
               dict(VH_K=3, VH_MAXINS=1, VH_LLO=lo, VH_LHI=lo + 6))
    for k in (2, 3):
        ob(f'finding_omega_insert_into_diag[k={k}]', UPD, 'omegas_ok',
           dict(VH_K=k, VH_MAXINS=1, VH_REGION='omega_insert_into_diag'))
    # 5 block naming -------------------------------------------------------------------------------------------------------
    for rec in ('OMEGA', 'SIGMA'):
        for nb in range(3):
            ob(f'{rec.lower()}_blocks[n={nb}]', BLK, 'blocks_ok', dict(VH_NB=nb, VH_RECORD=rec))
        for c0 in range(7):
            ob(f'{rec.lower()}_blocks[n=3,first={c0}]', BLK, 'blocks_ok', dict(VH_NB=3, VH_RECORD=rec, VH_C0LO=c0, VH_C0HI=c0 + 1))
            if thorough:
                ob(f'{rec.lower()}_blocks[n=4,first={c0}]', BLK, 'blocks_ok',
                   dict(VH_NB=4, VH_RECORD=rec, VH_C0LO=c0, VH_C0HI=c0 + 1))
    # 6 the real records -----------------------------------------------------------------------------------------------------
    tier = 'thorough' if thorough else 'quick'
    nt, no = N_THETA, N_OMEGA
    for lo in range(0, nt, 3):
        ob(f'theta_update[records,layouts={lo}..{min(lo + 2, nt - 1)}]', REC, 'theta_update',
           dict(VH_TIER=tier, VH_TLO=lo, VH_THI=lo + 3))
    for lo in range(0, nt, 8):
        ob(f'theta_remove[records,layouts={lo}..{min(lo + 7, nt - 1)}]', REC, 'theta_remove',
           dict(VH_TIER=tier, VH_TLO=lo, VH_THI=lo + 8))
    for lo in range(0, no, 3):
        ob(f'omega_update[records,layouts={lo}..{min(lo + 2, no - 1)}]', REC, 'omega_update',
           dict(VH_TIER=tier, VH_OLO=lo, VH_OHI=lo + 3))
    ob(f'omega_remove[records,layouts=0..{no - 1}]', REC, 'omega_remove', dict(VH_TIER=tier))
    for region, func in REC_FINDINGS:
        ob(f'finding_{region}[records]', REC, func, dict(VH_TIER=tier, VH_REGION=region))
    # 7 model level: parameters / random variables re-read from the generated code == in-memory ones ---------------------------
    MEDITS = ['none', 'theta_init', 'theta_fix', 'theta_unfix_all', 'theta_bounds', 'theta_remove_upper', 'omega_init',
              'sigma_init', 'add_theta', 'add_iiv', 'remove_iiv_last', 'remove_iiv_first', 'join', 'split', 'fix_omega',
              'fix_all', 'block3_second_update']
    for i, en in enumerate(MEDITS):
        ob(f'model_params[edit={en}]', 'C04_model.py', 'model_params', dict(VH_EDIT=i), timeout=max(T, 450))
    ob('model_params__twin', 'C04_model.py', 'model_params__twin', dict(VH_EDIT=1), timeout=150, kind='twin')
    # four etas over several multi-value records: edits that remove / join all etas of one record
    ob('model_params4[multi-value records]', 'C04_model.py', 'model_params4', {}, timeout=max(T, 450))
    ob('finding_omega_insert_into_diag[model level]', 'C04_model.py', 'model_params4', dict(VH_REGION='join_middle_of_diag'))
    ob('model_params4__twin', 'C04_model.py', 'model_params4__twin', {}, timeout=150, kind='twin')
    # five etas: multi-value diagonal record + BLOCK(3), members split off (default names re-written at other positions)
    ob('model_params5[diag + block(3), split]', 'C04_model.py', 'model_params5', {}, timeout=max(T, 450))
    ob('model_params5__twin', 'C04_model.py', 'model_params5__twin', {}, timeout=150, kind='twin')
    ob('finding_default_omega_name_after_removal[model level]', 'C04_model.py', 'model_params',
       dict(VH_EDIT=MEDITS.index('remove_iiv_first'), VH_REGION='default_name_after_removal'), timeout=max(T, 450))
    # twins --------------------------------------------------------------------------------------------------------------
    for func, file, env in (('diff_ok', LCS, dict(VH_N=3)), ('reorder_ok', LCS, dict(VH_N=3)),
                            ('thetas_ok', UPD, dict(VH_K=2)), ('omegas_ok', UPD, dict(VH_K=2)),
                            ('blocks_ok', BLK, dict(VH_NB=2)), ('theta_update', REC, {}), ('theta_remove', REC, {}),
                            ('omega_update', REC, {}), ('omega_remove', REC, {})):
        ob(f'{func}__twin', file, func + '__twin', env, timeout=120, kind='twin')
    heavy = ('lcs.diff[len=3,3', 'lcs.diff[len=4,4', 'lcs.diff[len=4,3', 'lcs.diff[len=3,4', 'reorder_diff[len=3', 'reorder_diff[len=4',
             'update_random_variables[k=3', 'update_random_variables[k=4', 'update_random_variables[k=2', 'update_thetas[k=3',
             'update_thetas[k=4', 'update_thetas[k=5')
    obs.sort(key=lambda o: (o.kind == 'twin', 0 if o.name.startswith(heavy) else 1))
    return obs


def triangular_root_lemma(run):
    """z3: for every integer n >= 1 the exact square root of 2*T_n = n(n+1) lies in [n + 0.4, n + 0.5), so that
    floor(sqrt(2*T_n)) == n, also for an IEEE double sqrt as long as the rounding error of sqrt stays below 0.4
    (n < 10^15); and 2*T_0 = 0.  The real `triangular_root` is additionally evaluated on T_n for n <= 10^4."""
    import z3
    t0 = time.time()
    n = z3.Int('n')
    x = z3.ToReal(n)
    s = z3.Solver()
    s.set('timeout', 30000)
    s.add(n >= 1)
    s.add(z3.Not(z3.And((x + z3.RealVal('0.4')) * (x + z3.RealVal('0.4')) <= x * (x + 1),
                        x * (x + 1) < (x + z3.RealVal('0.5')) * (x + z3.RealVal('0.5')))))
    r = s.check()
    from pharmpy.internals.math import triangular_root
    bad = [k for k in range(10001) if triangular_root(k * (k + 1) // 2) != k]
    dt = time.time() - t0
    if r == z3.unsat and not bad:
        run.add('triangular_root_lemma[z3]', 'discharged', dt)
    elif r == z3.sat or bad:
        wit = bad[0] if bad else s.model()[n].as_long()
        ok = triangular_root(wit * (wit + 1) // 2) == wit
        if ok:
            run.add('triangular_root_lemma[z3]', 'inconclusive', dt, f'z3 model n={wit} does not reproduce')
        else:
            v = run.report_violation('triangular_root_lemma[z3]', f'triangular_root n={wit}',
                                     dict(kind='z3', n=wit), f'triangular_root(T_{wit}) != {wit}')
            run.add('triangular_root_lemma[z3]', v, dt, dict(n=wit))
    else:
        run.add('triangular_root_lemma[z3]', 'inconclusive', dt, f'z3 answered {r}')


def replay(path):
    import json
    with open(path) as f:
        d = json.load(f)
    if d['replay'].get('kind') == 'z3':
        from pharmpy.internals.math import triangular_root
        n = d['replay']['n']
        bad = triangular_root(n * (n + 1) // 2) != n
        print(json.dumps(dict(ok=not bad, n=n)))
        return 1 if bad else 0
    return replay_file(path)


def main():
    if '--replay' in sys.argv:
        sys.exit(replay(sys.argv[sys.argv.index('--replay') + 1]))
    run = Run('C04', 'other')
    thorough = run.tier == 'thorough'
    obs = build(thorough)
    only = os.environ.get('VERIF_ONLY')          # developer aid: run only the obligations whose name matches
    if only:
        obs = [o for o in obs if re.search(only, o.name)]
    run.functions = [
        'internals.sequence.lcs.diff/_matrix/_diff', 'model.external.nonmem.update.reorder_diff',
        'model.external.nonmem.update.update_thetas', 'model.external.nonmem.update.update_random_variables/'
        'update_random_variable_records/_validate_eta_names',
        'model.external.nonmem.parsing.parameters_from_blocks/rvs_from_blocks', 'internals.math.triangular_root',
        '(real, concrete per path) pharmpy.model NormalDistribution/JointNormalDistribution/RandomVariables/Parameters',
        'model.external.nonmem.records.theta_record.ThetaRecord.update/remove/inits/bounds/fixs/comment_names/__len__',
        'model.external.nonmem.records.omega_record.OmegaRecord.update/remove/parse/__len__',
        '(real, concrete per path) records.factory.create_record (lark parsers of $THETA/$OMEGA), pharmpy.model.Parameter',
    ]
    run.bounds = dict(
        lcs_diff=f'old, new: symbolic int lists of length <= {4 if thorough else 3} over the alphabet 0..2 (traced '
                 f'symbolically, split on the lengths' + (' and leading symbols)' if thorough else ')'),
        reorder_diff=f'symbolic scripts of <= {4 if thorough else 3} (op, name) pairs, op in -1/0/+1, 3 names, names '
                     f'unique on the old and on the new side, every subset of kept names',
        update_thetas=('k <= 4 old thetas with <= 2 added, k = 5 with <= 1 added' if thorough else
                       'k <= 3 old thetas, <= 2 added') + '; every split of the k thetas into consecutive records (a (v)xn '
                      'repeat is a record of size n); per old theta keep / change value / remove; added thetas at every gap',
        update_random_variables=('k <= 3 old distributions with <= 2 added, k = 4 with <= 1 added' if thorough else
                                 'k <= 2 old distributions with <= 2 added, k = 3 with <= 1 added') +
                                '; every sequence of records DIAGONAL(1..3 items) / BLOCK(2) / BLOCK(3) holding them; per '
                                'distribution keep / change initial estimates / remove; added single or BLOCK(2) '
                                'distributions at every gap; one untouched $SIGMA',
        blocks=f'every sequence of <= {4 if thorough else 3} blocks out of: DIAGONAL item (named/unnamed, FIX or not), '
               f'BLOCK(2), BLOCK(3) (named/unnamed), BLOCK SAME; OMEGA and SIGMA',
        triangular_root='z3: all n >= 1 over exact reals (+ the real function on T_n, n <= 10^4)',
        records=f'real records from {N_THETA} $THETA texts (single value, (low,init), (low,init,up), FIX outside / inside '
                f'/ after the parentheses, (..)xn repeats first / in the middle / last, several values per record, name '
                f'comments on continuation lines, odd spellings 0.00 / 10.0 / -.99 / 1E-2, -INF / INF, <= 5 thetas per record) '
                f'and {N_OMEGA} $OMEGA/$SIGMA texts (diagonal, DIAGONAL(n), BLOCK(2), BLOCK(3) with six different '
                f'values, FIX on the record / on a value / inside parentheses, (v)xn, SD on values, BLOCK SD CORRELATION / '
                f'VARIANCE CORRELATION / CHOLESKY, name comments, one value per line, odd spellings); theta_update: per '
                f'token (or all tokens at once) x {{none, 4 new initial estimates, FIX toggle, 4 lower bounds incl. none, '
                f'4 upper bounds incl. none / 1000000, 4 pairs of bounds, estimate + FIX, one member only of a repeat}}; '
                f'theta_remove: every proper subset of the parameter positions of the record; omega_update: per position of '
                f'the parameter list x {{none, 4 new values (variance / covariance, positive definite), FIX toggle (value / '
                f'whole block), value + FIX}}; omega_remove: every proper subset of the etas of a diagonal record',
        outside='at record level (item 6) not in the tables: records with options (NUMBERPOINTS, ABORT), BLOCK SAME / '
                'VALUES, FIX spelled inside (low,init,up FIX) (refused by pharmpy), (low,init)xn as INPUT (refused by '
                'pharmpy), `$OMEGA SD 0.3` (option before the values of a diagonal record: refused by pharmpy), two edits '
                'at once on different tokens other than the same edit on all tokens, non positive definite requests; '
                'items 3-4 (bookkeeping): the records are contract stubs there, $ABBR REPLACE, '
                'create_theta_record/create_omega_single/create_omega_block code generation, '
                'IOV / BLOCK SAME in update_random_variable_records; joining/splitting of blocks other than as '
                'remove+add of whole distributions; THETA(n) renumbering in the code (C02); reordering of kept thetas '
                'or etas (outside the edit alphabet; informational: a reorder + change of thetas corrupts values)')
    run.assumptions = [
        'ThetaRecord contract stub TRec: len = number of thetas; remove(inds) drops those positions and returns the same '
        'object for an empty list; update(params) takes exactly the thetas of this record positionally, keeps the token '
        'of an unchanged value, and asserts that parameter i carries the name of theta i',
        'OmegaRecord contract stub ORec: len = number of distributions (DIAGONAL: items, BLOCK: 1); remove([(i,0),..]) '
        'on DIAGONAL records; update(params) positional over the items (BLOCK: lower triangle row-wise) with the same '
        'alignment assertions',
        'create_theta_record / create_omega_single / create_omega_block rebound to constructors of one-entry stub records '
        'holding the parameter(s) of the model',
        'control stream stub: get_records / replace_all; model stub: SimpleNamespace with real RandomVariables / Parameters',
        'theta values are one integer standing for (init, lower, upper, fix): update_thetas only compares parameters with ==; '
        'old thetas are named 0..k-1 (names are only compared for equality: renaming symmetry)',
        'table indexes are fixed per path by bisection on the symbolic int (z3 decides each branch), then the real function '
        'runs on concrete data with CrossHair opcode tracing suspended (items 3-5); items 1-2 are traced symbolically',
        'CrossHair optional short-circuiting of contract-carrying callees is disabled (callees always executed)',
        'item 6: parameters handed to record.update are real pharmpy.model.Parameter objects named after the comment names '
        '(THETA_i / P_i otherwise); the reference reader lib/nmref.parse_theta / parse_omega is the trusted base; omega '
        'values are compared with relative tolerance 1e-12 (SD / CORRELATION / CHOLESKY go through sqrt and division), '
        'theta values exactly; the token structure of the OLD record (which child of the parse tree is a value token) is '
        'taken from pharmpy after checking str(record) == text, the NEW text is judged as plain text',
        'eta <-> omega association is positional (ETA(i) = i-th distribution of the $OMEGA records, $ABBR REPLACE numbers '
        'etas in model order): oracle of item 4 is positional; theta oracle is name keyed (names travel in comments)',
    ]
    run_obligations(run, obs)
    triangular_root_lemma(run)
    for o in obs[:4] + [x for x in obs if x.name.startswith('finding_')][:2] + \
            [x for x in obs if '[records' in x.name][:3] + [x for x in obs if x.name.endswith('[records]')][:2] + obs[-1:]:
        run.sample(dict(obligation=o.name, harness=o.file, func=o.func, env=o.env))
    run.finish(coverage=dict(
        explanation='bounded symbolic execution (CrossHair 0.0.110 / z3) of the real bookkeeping functions; "discharged" = '
                    '"Confirmed over all paths" of the bounded input space; counterexamples are replayed concretely in a '
                    'fresh interpreter before being reported; triangular_root by a direct z3 query. Two levels: (items 3-4) '
                    'the records are contract stubs, so the claim is "given records that honour their contract, the updaters '
                    'hand each record exactly its own parameters and the result read back positionally/by name equals '
                    'the in-memory model"; (item 6) the real ThetaRecord / OmegaRecord honour that contract on every layout '
                    'x edit of the tables: the generated text read by an independent reader equals the requested '
                    'parameters and untouched text is byte-identical. In item 6 the solver enumerates the table '
                    'indexes (one path per case); the record code itself runs concretely.',
        checker_cmd='crosshair check --report_all --per_condition_timeout T harness/C04_*.py:LINE ; z3 (triangular_root)'))


if __name__ == '__main__':
    main()
