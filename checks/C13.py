"""C13 — datasets are read by NM-TRAN's rules (docs/NONMEM.rst).

CrossHair/z3 symbolic execution of the real row separator regex, NMTRANDataIO prefilter, _convert_data_item /
convert_fortran_number and parse_column_info against a reference written from docs/NONMEM.rst, plus z3 regex-theory
equivalence (no length bound) of the regex literals extracted from the pharmpy source.  A counterexample is first replayed
concretely over the stubs and then re-evaluated with NO stubs (VH_REAL=1: real numpy / StringIO / pandas row reader /
real $INPUT parser) before it is reported.
"""
import os
import sys
import time

from vcommon import Run, VERIF
from xhair import Ob, replay_call, replay_file, run_obligations, run_probes

H = 'C13_dataset.py'
ROWALPHA_N = 6          # len(C13_dataset.ROWALPHA) = '1.-, TAB'
ROW_FIRSTS = range(5)    # a row beginning with TAB (index 5) is outside the claim
IGNS = ['#', '', '@', 'C']
# Region B (short form a+b followed by further characters, e.g. '1+2+', silently read as 1E+2).  Basis: the docstring of
# convert_fortran_number ("All other cases will ... signal that the number_string is not of the special form") and
# docs/NONMEM.rst "Each item can only be numeric".  Set to False to move the region to `outside`.
FINDING_B_ON = True


def ign_name(c):
    return {'': 'default', '#': 'hash', '@': 'at'}.get(c, c)


def ch_name(c):
    return {'+': 'plus', '-': 'minus', '.': 'dot'}.get(c, c)


def confirm(ob, call, rep):
    """Second stage: same obligation, concrete, without any stub."""
    real = Ob(ob.name, ob.file, ob.func, env=dict(ob.env, VH_REAL=1))
    r = replay_call(real, call)
    r['note'] = 'unstubbed re-evaluation (real numpy, StringIO, pandas python-engine row reader, real $INPUT parser)'
    return r


def build(thorough):
    T = 900 if thorough else 300
    obs = []
    # ---- (1) row splitting
    obs.append(Ob('rowsplit[len<=3]', H, 'rowsplit', T, env=dict(VH_ROWMAX=3)))
    for i in ROW_FIRSTS:
        obs.append(Ob(f'rowsplit[len=4,first={i}]', H, 'rowsplit', T,
                      env=dict(VH_ROWMAX=4, VH_ROWLEN=4, VH_ROWFIRST=i)))
        if thorough:
            for j in range(ROWALPHA_N):
                if (i, j) == (4, 5):
                    continue    # space followed by TAB: outside the claim (error case, obligation prefilter_spacetab)
                obs.append(Ob(f'rowsplit[len=5,first={i},second={j}]', H, 'rowsplit', T,
                              env=dict(VH_ROWMAX=5, VH_ROWLEN=5, VH_ROWFIRST=i, VH_ROWSECOND=j)))
    # ---- (2) prefilter
    for c in IGNS:
        n = ign_name(c)
        cases = [('len<=4', dict(VH_IGN=c, VH_PREMAX=4))]
        if thorough and c in ('#', '@'):
            cases += [(f'len=5,first={f}', dict(VH_IGN=c, VH_PREMAX=5, VH_PRELEN=5, VH_PREFIRST=f)) for f in range(6)]
        for tag, e in cases:
            nl_first = e.get('VH_PREFIRST') == 4    # text starts with a newline = blank first line
            if not nl_first:
                obs.append(Ob(f'prefilter_comments[ign={n},{tag}]', H, 'prefilter_comments', T, env=e))
                obs.append(Ob(f'prefilter_lastline[ign={n},kind=data,{tag}]', H, 'prefilter_lastline', T,
                              env=dict(e, VH_LASTKIND='data')))
            obs.append(Ob(f'prefilter_spacetab[ign={n},{tag}]', H, 'prefilter_spacetab', T, env=e))
            obs.append(Ob(f'prefilter_blank[ign={n},pos=last,{tag}]', H, 'prefilter_blank', T,
                          env=dict(e, VH_BLANKPOS='last')))
        # regions of findings C and D (exactly the complement of the case split above)
        e = dict(VH_IGN=c, VH_PREMAX=5 if thorough else 4)
        obs.append(Ob(f'prefilter_blank[ign={n},pos=inner]', H, 'prefilter_blank', T,
                      env=dict(e, VH_BLANKPOS='inner')))
        obs.append(Ob(f'prefilter_lastline[ign={n},kind=comment]', H, 'prefilter_lastline', T,
                      env=dict(e, VH_LASTKIND='comment')))
    # finding E: ignore characters that are special inside a regex character class
    for c, n in (('^', 'caret'), ('\\', 'backslash')):
        obs.append(Ob(f'prefilter_ignchar[c={n}]', H, 'prefilter_comments', T, env=dict(VH_IGN=c, VH_PREMAX=3)))
    # ---- (3) items
    alpha = '19.+-EDd'
    na = len(alpha)
    signs = [alpha.index('+'), alpha.index('-')]
    ea = dict(VH_ITEMALPHA=alpha)
    a3 = '019.+-EeDd' if thorough else alpha       # items <= 3: thorough uses the 10-character alphabet
    e3 = dict(VH_ITEMALPHA=a3)
    obs.append(Ob('item[len<=2]', H, 'item', T, env=dict(e3, VH_ITEMMAX=2)))
    for i in range(len(a3)):
        obs.append(Ob(f'item[len=3,first={ch_name(a3[i])}]', H, 'item', T,
                      env=dict(e3, VH_ITEMMAX=3, VH_ITEMLEN=3, VH_ITEMFIRST=i)))
    for i in (range(na) if thorough else signs):
        for j in range(na):
            obs.append(Ob(f'item[len=4,first={ch_name(alpha[i])},second={ch_name(alpha[j])}]', H, 'item', T,
                          env=dict(ea, VH_ITEMMAX=4, VH_ITEMLEN=4, VH_ITEMFIRST=i, VH_ITEMSECOND=j)))
    if thorough:
        # 5 characters: sign-led items over the 8-character alphabet
        a8 = '19.+-EDd'
        for i in (a8.index('+'), a8.index('-')):
            for j in range(8):
                for k in range(8):
                    obs.append(Ob(f'item[len=5,first={ch_name(a8[i])},second={ch_name(a8[j])},third={ch_name(a8[k])}]', H, 'item', T,
                                  env=dict(VH_ITEMALPHA=a8, VH_ITEMMAX=5, VH_ITEMLEN=5, VH_ITEMFIRST=i,
                                           VH_ITEMSECOND=j, VH_ITEMTHIRD=k)))
    imax = 5 if thorough else 4
    # regions of findings A and B (exactly the exclusions of `item`)
    obs.append(Ob(f'item_signed_dexp[len<={imax}]', H, 'item_signed_dexp', T, env=dict(ea, VH_ITEMMAX=imax)))
    if FINDING_B_ON:
        obs.append(Ob(f'item_shortform_junk[len<={imax}]', H, 'item_shortform_junk', T,
                      env=dict(ea, VH_ITEMMAX=imax)))
    obs.append(Ob('item_otherchar[len<=3]', H, 'item_otherchar', T))
    obs.append(Ob('item_null', H, 'item_null', T))
    obs.append(Ob('item_25', H, 'item_25', T))
    for n in (range(21, 26) if thorough else (23, 24, 25)):
        obs.append(Ob(f'item_long[n={n}]', H, 'item_long', T, env=dict(VH_LONGN=n)))
    # ---- (4) $INPUT columns
    obs.append(Ob('columns[n<=2]', H, 'columns', T, env=dict(VH_COLMAX=2)))
    if thorough:
        for k in range(12):
            obs.append(Ob(f'columns[n=3,k0={k}]', H, 'columns', T, env=dict(VH_COLMAX=3, VH_COLN=3, VH_COLK0=k)))
    # ---- twins
    tw = [('rowsplit', dict(VH_ROWMAX=3)), ('prefilter_comments', dict(VH_PREMAX=3)),
          ('prefilter_spacetab', dict(VH_PREMAX=3)), ('prefilter_blank', dict(VH_PREMAX=3, VH_BLANKPOS='last')),
          ('prefilter_lastline', dict(VH_PREMAX=3, VH_LASTKIND='data')), ('item', dict(VH_ITEMMAX=2)),
          ('item_otherchar', {}), ('item_null', {}), ('item_25', {}), ('item_long', dict(VH_LONGN=24)),
          ('columns', dict(VH_COLMAX=2))]
    for f, e in tw:
        obs.append(Ob(f'{f}__twin', H, f + '__twin', 120, kind='twin', env=e))
    # longest first
    cost = lambda o: (o.kind == 'twin', 0 if ('item[' in o.name or 'columns' in o.name or 'item_long' in o.name) else 1)
    obs.sort(key=cost)
    return obs


def z3_obligations(run):
    """z3 regex theory: the extracted literals against the documented languages, no length bound."""
    import C13_regex as R
    queries = [('z3:sep_equivalence', R.sep_equivalence, lambda w: f'sep_agrees({w!r})')]
    for c in ('#', 'C', '@'):
        queries.append((f'z3:comment_equivalence[ign={ign_name(c)}]', (lambda c=c: R.comment_equivalence(c)),
                        (lambda w, c=c: f'comment_agrees({c!r}, {w!r})')))
    for name, q, mkcall in queries:
        t0 = time.time()
        try:
            verdict, w = q()
        except NotImplementedError as e:
            run.add(name, 'inconclusive', time.time() - t0, f'regex construct outside the translator: {e}')
            continue
        dt = time.time() - t0
        if verdict == 'unsat':
            run.add(name, 'discharged', dt)
        elif verdict == 'sat':
            w = R._unescape(w)
            call = mkcall(w)
            ob = Ob(name, 'C13_regex.py', call.split('(')[0])
            rep = replay_call(ob, call)
            if rep.get('ok') is False:
                v = run.report_violation(name, f'{name} {call}',
                                         dict(kind='crosshair', harness='C13_regex.py', func=ob.func, call=call,
                                              env={}, concrete=rep),
                                         f'z3 witness {w!r}: pharmpy\'s regex and the documented language disagree '
                                         f'(confirmed with Python re: {rep})')
                run.add(name, v, dt, dict(witness=w, replay=rep))
            else:
                run.add(name, 'inconclusive', dt, dict(note='z3 witness did not reproduce with Python re', witness=w))
        else:
            run.add(name, 'inconclusive', dt, f'z3: {w}')
    # vacuity: the extracted languages are not empty
    t0 = time.time()
    import z3
    ne = R.decide(lambda x: z3.InRe(x, R.to_z3(R.extract_sep())))[0] == 'sat' and \
        R.decide(lambda x: z3.InRe(x, R.to_z3(R.extract_comment_regex('@'), True)))[0] == 'sat'
    run.add('z3:languages_nonempty__twin', 'witness-ok' if ne else 'vacuous', time.time() - t0)
    if not ne:
        run.harness_error('z3 regex translation yields an empty language')
    return R


def check_pandas_assumption(run):
    """The row obligation mirrors pandas' python engine: `pat.split(line.strip())`."""
    try:
        import pandas.io.parsers.python_parser as pp
        with open(pp.__file__) as f:
            ok = 'pat.split(line.strip())' in f.read()
    except Exception:
        ok = False
    if not ok:
        run.harness_error('pandas python engine no longer splits rows with pat.split(line.strip()); rowsplit harness '
                          'must be revisited')


def main():
    if '--replay' in sys.argv:
        sys.exit(replay_file(sys.argv[sys.argv.index('--replay') + 1]))
    run = Run('C13', 'other')
    thorough = run.tier == 'thorough'
    obs = build(thorough)
    run.functions = ['read_nonmem_dataset (separator literal, via re.compile(sep).split(line.strip()))',
                     'NMTRANDataIO.__init__', 'convert_fortran_number', '_convert_data_item', 'parse_column_info',
                     '_synonym']
    run.bounds = dict(
        rows=f'all rows of <= {5 if thorough else 4} characters over {{1 . - , space TAB}} that are in the claim',
        prefilter_texts='all texts of <= 4 characters over {1 space # TAB newline a|c} for ignore characters default, '
                        '#, @, C' + ('; 5 characters for # and @' if thorough else ''),
        items=('all items of <= 3 characters over {0 1 9 . + - E e D d}; 4 characters over {1 9 . + - E D d}; '
               '5 characters over the same when the first character is a sign' if thorough else
               'all items of <= 3 characters over {1 9 . + - E D d}; 4 characters when the first character is a sign'),
        other_characters='items <= 3 over {1 . - E x ,} containing x or ,',
        long_items="'1'*n + tail, n in %s, tail <= 2 over {1 2 . E}; all 25-character items over the item alphabet"
                   % ('21..25' if thorough else '23..25'),
        null='NULL forms . / empty / None x the 12 legal NULL values',
        input_columns=f'<= {3 if thorough else 2} $INPUT options of 12 kinds, split over two records at every point',
        regex_theory='separator and comment regex literals: language equivalence with the documented forms, no length '
                     'bound (z3 regex theory)',
        outside='pd.read_table assembly (padding short rows, dropping surplus columns, header handling), '
                '_filter_ignore_accept (lark + DataFrame.query), _make_ids_unique, TIME/DATE translation, dtype '
                'handling, write_csv/read round trip; rows that begin or end with a TAB (the docs give the begin/end '
                'NULL rule for commas only; pandas strips them); an unterminated last line consisting of blanks; '
                "lines starting with '@' and CR/FF/VT as white space under IGNORE=@ (docs and NM-TRAN differ); ignore "
                'characters other than the four listed (and ^, backslash: finding E); longer rows/texts/items than the '
                'bounds; float rounding of the converted value (the string handed to numpy is compared)'
                + ('' if FINDING_B_ON else '; items consisting of a short form a+b / a-b followed by further characters '
                                           '(region B: pharmpy reads the prefix)'))
    run.assumptions = [
        'np.float64 in dataset.py is replaced by a recorder that accepts exactly Python float syntax '
        '[+-]?(d+.?d*|.d+)([eE][+-]?d+)? and returns the string; np.nan by a marker object',
        'StringIO.__init__ under NMTRANDataIO is replaced (cooperative MRO) by a recorder of the contents string; the '
        'input is an object whose read() returns the symbolic text',
        "pandas' python engine splits a line with re.compile(sep).split(line.strip()) (checked against the installed "
        'pandas source at run time); sep is AST-extracted from read_nonmem_dataset at import',
        'parse_column_info runs on a stub control stream whose get_records("INPUT") returns objects with an '
        'all_options list of (key, value) pairs',
        'missing_data_token is the default -99',
        'reference reader written from docs/NONMEM.rst (trusted): delimiter automaton, line-based comment/blank/space-TAB '
        'rules, Fortran real forms with E/e/D/d and the short form, lone sign = 0, . and empty = NULL, 24 characters',
        'every counterexample is re-evaluated with no stub at all (VH_REAL=1) before it is reported',
    ]
    check_pandas_assumption(run)
    run_obligations(run, obs, confirm=confirm)
    z3_obligations(run)
    # concrete companions (sampling, not solver verdicts): the kernel decided above is what the real reader composes,
    # including the pandas assembly (padding, surplus columns, exact float conversion) and the IGNORE/ACCEPT filters
    run_probes(run, [(Ob('assembly', 'C13_e2e.py', 'assembly_all', env={}), 'assembly_all()'),
                     (Ob('filters', 'C13_e2e.py', 'filters_all', env={}), 'filters_all()'),
                     (Ob('write_read_cycle', 'C13_e2e.py', 'write_read_cycle', env={}), 'write_read_cycle()')])
    for o in obs[:4] + [o for o in obs if o.name.startswith(('rowsplit[len=4', 'prefilter_comments', 'columns'))][:6]:
        run.sample(dict(obligation=o.name, harness=o.file, func=o.func, env=o.env))
    run.finish(coverage=dict(
        explanation='bounded symbolic execution (CrossHair, z3 decides every path) of the real pharmpy dataset-reading '
                    'functions against a reference written from docs/NONMEM.rst; all strings up to the stated lengths '
                    'over the stated alphabets are covered when an obligation is "discharged" (Confirmed over all '
                    'paths); case splits by length / leading characters are exhaustive within the bound; regex '
                    'literals are additionally compared with the documented languages by z3 regex theory without a '
                    'length bound',
        checker_cmd='crosshair check --report_all --per_condition_timeout T harness/C13_dataset.py:LINE'))


if __name__ == '__main__':
    main()
