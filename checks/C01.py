"""C01 — reading a NONMEM model preserves its meaning (translation validation).

pharmpy reads each control stream concretely; an independent reference semantics of NM-TRAN/PREDPP (lib/nmref.py)
interprets the same text; z3 decides, for ALL thetas, etas, epsilons, data items and amounts, that every variable
live at the end of $PK/$ERROR/$PRED (incl. F and Y) and every compartment's dA/dt agree; parameters and random-effect
structure are compared as exact numbers.  Programs: the repository's own control streams + a generated family
(ADVAN x TRANS templates, abbreviated-code grammar, parameter-record forms).
"""
import itertools
import json
import multiprocessing as mp
import os
import random
import sys
import time
import traceback

from vcommon import REPO, Run

DATA = os.path.join(REPO, 'tests', 'testdata', 'nonmem', 'pheno.dta')

HEAD = f'''$PROBLEM generated
$INPUT ID TIME AMT WGT APGR DV FA1 FA2
$DATA {DATA} IGNORE=@
'''
TAIL_EST = '$ESTIMATION METHOD=1 INTERACTION\n'


def pred_program(stmts, nthetas=3):
    th = ''.join(f'$THETA (0,{0.5 + i})\n' for i in range(nthetas))
    return (HEAD + '$PRED\n' + '\n'.join(stmts) + '\n' + th + '$OMEGA 0.1\n$OMEGA 0.2\n$SIGMA 0.3\n' + TAIL_EST)


# ---------------------------------------------------------------------------------------------------------------
# generated family 1: abbreviated code

ATOMS = ['THETA(1)', 'WGT', '2.0', 'X']
OPS = ['+', '-', '*', '/', '**']


def gen_expressions():
    """text expressions probing precedence / associativity / unary signs / number forms."""
    out = []
    for o1, o2 in itertools.product(OPS, repeat=2):
        c = '2' if o2 == '**' else 'APGR'
        b = '2' if o1 == '**' and o2 != '**' else 'WGT'
        out.append(f'THETA(1) {o1} {b} {o2} {c}')
        out.append(f'(THETA(1) {o1} {b}) {o2} {c}')
        out.append(f'THETA(1) {o1} ({b} {o2} {c})')
    # signed literals: the sign is a unary operator below ** (Fortran: -2**2 = -4), also after another operator
    out += ['-2**2', '-2.5**2*WGT', '-.5**2 + WGT', 'WGT - 3**2', '-2**THETA(1)', '2*-WGT**2', '-1.5E1**2', 'WGT*-2**2',
            'THETA(1)**-2**2', '(-2)**2*WGT']
    out += ['-THETA(1)**2', '-WGT*THETA(1)', 'THETA(1)*(-WGT)', '+WGT - -THETA(1)', 'THETA(1)**(-1)', 'THETA(1)**-1',
            '2**3**2', 'WGT/2/4', 'WGT-2-4', '1/2*WGT', '1.5E1*WGT', '1.5D-1+WGT', '.5*WGT', '5.*WGT', '1E2/WGT',
            'THETA(1)*EXP(ETA(1))', 'THETA(1)+THETA(2)*WGT**THETA(3)', '(WGT/70)**THETA(3)', 'WGT**0.75',
            'THETA(1)*(1+THETA(2)*(WGT-70))', 'EXP(THETA(1)+ETA(1))', 'LOG(THETA(1))+ETA(2)',
            'THETA(1)  *  WGT   +   ETA(1)', 'theta(1)*wgt', 'THETA(1)*WGT &\n  + ETA(1)', 'THETA(1) ; comment',
            'SQRT(THETA(1)**2+WGT**2)']
    return out


FUNCS = ['EXP', 'LOG', 'LOG10', 'SQRT', 'SIN', 'COS', 'TAN', 'ASIN', 'ACOS', 'ATAN', 'ABS', 'INT', 'GAMLN', 'PHI',
         'DEXP', 'DLOG', 'DSQRT', 'PEXP', 'PLOG', 'PLOG10', 'PSQRT', 'PDZ', 'PZR', 'PNP', 'PHE', 'PNG']

CONDS = ['WGT.GT.70', 'WGT.GE.70', 'WGT.LT.70', 'WGT.LE.70', 'APGR.EQ.3', 'APGR.NE.3', 'WGT>70', 'WGT>=70', 'WGT<70',
         'WGT<=70', 'APGR==3', 'APGR/=3', 'WGT.GT.70.AND.APGR.LT.5', 'WGT.GT.70.OR.APGR.LT.5',
         '.NOT.WGT.GT.70', '.NOT.(WGT.GT.70.AND.APGR.LT.5)', 'WGT.GT.70.OR.APGR.LT.5.AND.TIME.GT.2',
         '(WGT.GT.70.OR.APGR.LT.5).AND.TIME.GT.2', '.NOT.WGT.GT.70.AND.APGR.LT.5', 'WGT+1.GT.THETA(2)*2',
         'APGR.EQ.1.OR.APGR.EQ.2.OR.APGR.EQ.3', 'WGT .GT. 70 .AND. APGR .LT. 5', 'AMT.GT.0']


def gen_code_programs():
    progs = []
    for k, e in enumerate(gen_expressions()):
        progs.append((f'expr[{k}] {e}', pred_program(['X = THETA(2)', f'V1 = {e}', 'Y = V1 + EPS(1)'])))
    for f in FUNCS:
        progs.append((f'func[{f}]', pred_program([f'V1 = {f}(THETA(1)*WGT - 1)', 'Y = V1 + EPS(1)'])))
        progs.append((f'func2[{f}]', pred_program([f'V1 = 2*{f}(WGT)**2 + {f}(THETA(1))', 'Y = V1 + EPS(1)'])))
    progs.append(('func[MOD]', pred_program(['V1 = MOD(WGT, 3)', 'Y = V1 + EPS(1)'])))
    progs.append(('func[MOD-neg]', pred_program(['V1 = MOD(THETA(1) - WGT, 3)', 'Y = V1 + EPS(1)'])))
    progs.append(('func[MIN]', pred_program(['V1 = MIN(WGT, THETA(1))', 'Y = V1 + EPS(1)'])))
    progs.append(('func[MAX]', pred_program(['V1 = MAX(WGT, THETA(1), 3)', 'Y = V1 + EPS(1)'])))
    for k, c in enumerate(CONDS):
        progs.append((f'if[{k}] {c}', pred_program(['V1 = THETA(1)', f'IF ({c}) V1 = THETA(2)*WGT', 'Y = V1 + EPS(1)'])))
        progs.append((f'ifblock[{k}] {c}', pred_program([f'IF ({c}) THEN', '  V1 = THETA(1)', 'ELSE', '  V1 = THETA(2)',
                                                         'ENDIF', 'Y = V1 + EPS(1)'])))
    # statement-structure templates
    S = {
        'if-no-prior': ['IF (WGT.GT.70) V1 = THETA(1)', 'V2 = V1*2', 'Y = V2 + EPS(1)'],
        'if-after-assign': ['V1 = THETA(1)*WGT', 'IF (APGR.LT.5) V1 = V1*(1+THETA(2))', 'Y = V1 + EPS(1)'],
        'if-chain': ['V1 = 1', 'IF (APGR.LT.5) V1 = 2', 'IF (APGR.LT.3) V1 = V1 + THETA(1)', 'Y = V1 + EPS(1)'],
        'block-elseif': ['IF (APGR.LT.3) THEN', 'V1 = THETA(1)', 'ELSEIF (APGR.LT.6) THEN', 'V1 = THETA(2)', 'ELSE',
                         'V1 = THETA(3)', 'ENDIF', 'Y = V1 + EPS(1)'],
        'block-else-if-spaced': ['IF (APGR.LT.3) THEN', 'V1 = THETA(1)', 'ELSE IF (APGR.LT.6) THEN', 'V1 = THETA(2)',
                                 'ELSE', 'V1 = THETA(3)', 'END IF', 'Y = V1 + EPS(1)'],
        'block-no-else': ['V1 = THETA(3)', 'IF (APGR.LT.3) THEN', 'V1 = THETA(1)', 'ENDIF', 'Y = V1 + EPS(1)'],
        'block-no-else-no-prior': ['IF (APGR.LT.3) THEN', 'V1 = THETA(1)', 'ENDIF', 'Y = V1 + EPS(1)'],
        'block-two-vars': ['IF (APGR.LT.3) THEN', 'V1 = THETA(1)', 'V2 = WGT', 'ELSE', 'V1 = THETA(2)', 'V2 = 2*WGT',
                           'ENDIF', 'Y = V1*V2 + EPS(1)'],
        'block-partial-vars': ['V2 = 1', 'IF (APGR.LT.3) THEN', 'V1 = THETA(1)', 'V2 = WGT', 'ELSE', 'V1 = THETA(2)',
                               'ENDIF', 'Y = V1*V2 + EPS(1)'],
        'block-same-var-twice': ['IF (APGR.LT.3) THEN', 'V1 = THETA(1)', 'V1 = V1 + WGT', 'ELSE', 'V1 = THETA(2)', 'ENDIF',
                                 'Y = V1 + EPS(1)'],
        'block-use-inside': ['IF (APGR.LT.3) THEN', 'V1 = THETA(1)', 'V2 = V1*WGT', 'ELSE', 'V1 = THETA(2)', 'V2 = V1',
                             'ENDIF', 'Y = V2 + EPS(1)'],
        'block-nested': ['IF (APGR.LT.6) THEN', 'V1 = THETA(1)', 'IF (WGT.GT.70) THEN', 'V1 = THETA(2)', 'ENDIF', 'ELSE',
                         'V1 = THETA(3)', 'ENDIF', 'Y = V1 + EPS(1)'],
        'block-nested-else': ['IF (APGR.LT.6) THEN', 'IF (WGT.GT.70) THEN', 'V1 = THETA(2)', 'ELSE', 'V1 = THETA(1)',
                              'ENDIF', 'ELSE', 'V1 = THETA(3)', 'ENDIF', 'Y = V1 + EPS(1)'],
        'block-logical-if-inside': ['IF (APGR.LT.6) THEN', 'V1 = THETA(1)', 'IF (WGT.GT.70) V1 = THETA(2)', 'ELSE',
                                    'V1 = THETA(3)', 'ENDIF', 'Y = V1 + EPS(1)'],
        # a variable assigned only in a LATER branch of a block IF (with / without an earlier value)
        'block-else-only-var': ['V1 = 0', 'V2 = 0', 'IF (APGR.LT.3) THEN', 'V1 = THETA(1)', 'ELSE', 'V2 = THETA(2)', 'ENDIF',
                                'Y = V1 + V2 + EPS(1)'],
        'block-elseif-only-var': ['V1 = 0', 'V2 = 0', 'IF (APGR.LT.3) THEN', 'V1 = THETA(1)', 'ELSE IF (APGR.LT.6) THEN',
                                  'V2 = THETA(2)', 'END IF', 'Y = V1 + V2 + EPS(1)'],
        'block-elseif-only-var-else': ['V1 = 0', 'V2 = 0', 'IF (APGR.LT.3) THEN', 'V1 = THETA(1)', 'ELSE IF (APGR.LT.6) THEN',
                                       'V2 = THETA(2)', 'ELSE', 'V1 = THETA(3)', 'END IF', 'Y = V1 + V2 + EPS(1)'],
        'block-else-only-var-no-prior': ['V1 = 0', 'IF (APGR.LT.3) THEN', 'V1 = THETA(1)', 'ELSE', 'V2 = THETA(2)', 'ENDIF',
                                         'Y = V1 + EPS(1)'],
        'reassign': ['V1 = THETA(1)', 'V2 = V1*WGT', 'V1 = V1 + THETA(2)', 'Y = V1 + V2 + EPS(1)'],
        'self-ref': ['V1 = THETA(1)', 'V1 = V1*V1', 'V1 = V1/WGT', 'Y = V1 + EPS(1)'],
        'cond-uses-var': ['V1 = THETA(1)*WGT', 'IF (V1.GT.3) V1 = 3', 'Y = V1 + EPS(1)'],
        'cond-on-reassigned': ['V1 = WGT', 'IF (V1.GT.70) THEN', 'V1 = 70', 'V2 = V1', 'ELSE', 'V2 = 0', 'ENDIF',
                               'Y = V1 + V2 + EPS(1)'],
        'eps-in-if': ['IF (APGR.LT.5) THEN', 'Y = THETA(1) + EPS(1)', 'ELSE', 'Y = THETA(1)*(1 + EPS(1))', 'ENDIF'],
        'err-synonym': ['Y = THETA(1) + ERR(1)'],
        'two-eps': ['IPRED = THETA(1)*EXP(ETA(1))', 'W = SQRT(THETA(2)**2 + THETA(3)**2*IPRED**2)', 'Y = IPRED + W*EPS(1)'],
        'data-read-reassign': ['V1 = WGT', 'WT2 = WGT/70', 'V2 = WT2*THETA(1)', 'Y = V1 + V2 + EPS(1)'],
    }
    for name, st in S.items():
        progs.append((f'stmt[{name}]', pred_program(st)))
    # definition kind x update kind: how a variable was first defined decides what "the previous value" is
    DEF = {'plain': ['V1 = THETA(1)'], 'lif': ['IF (APGR.LT.7) V1 = THETA(1)'],
           'blk_else': ['IF (APGR.LT.3) THEN', 'V1 = THETA(1)', 'ELSE', 'V1 = THETA(2)', 'ENDIF'],
           'blk_noelse': ['IF (APGR.LT.3) THEN', 'V1 = THETA(1)', 'ENDIF'],
           'blk_elseif': ['IF (APGR.LT.3) THEN', 'V1 = THETA(1)', 'ELSEIF (APGR.LT.6) THEN', 'V1 = THETA(2)', 'ELSE',
                          'V1 = THETA(3)', 'ENDIF']}
    UPD = {'lif': ['IF (WGT.GT.70) V1 = V1*2'], 'blk_noelse': ['IF (WGT.GT.70) THEN', 'V1 = V1 + WGT', 'ENDIF'],
           'blk_elseif_noelse': ['IF (WGT.GT.70) THEN', 'V1 = 2*V1', 'ELSEIF (WGT.GT.50) THEN', 'V1 = 3*V1', 'ENDIF'],
           'use': ['V2 = V1*WGT']}
    for (dn, ds), (un, us) in itertools.product(DEF.items(), UPD.items()):
        last = 'V2' if un == 'use' else 'V1'
        progs.append((f'defupd[{dn},{un}]', pred_program(ds + us + [f'Y = {last} + EPS(1)'])))
    return progs


# ---------------------------------------------------------------------------------------------------------------
# generated family 2: ADVAN x TRANS

PKDEF = {
    'K': 'K = THETA(1)*EXP(ETA(1))', 'CL': 'CL = THETA(1)*EXP(ETA(1))', 'V': 'V = THETA(2)*EXP(ETA(2))',
    'KA': 'KA = THETA(3)', 'V1': 'V1 = THETA(2)*EXP(ETA(2))', 'V2': 'V2 = THETA(2)*EXP(ETA(2))',
    'V3': 'V3 = THETA(4)', 'V4': 'V4 = THETA(6)', 'Q': 'Q = THETA(5)', 'Q2': 'Q2 = THETA(5)', 'Q3': 'Q3 = THETA(7)',
    'Q4': 'Q4 = THETA(7)', 'VSS': 'VSS = THETA(4) + V', 'K12': 'K12 = THETA(4)', 'K21': 'K21 = THETA(5)',
    'K23': 'K23 = THETA(4)', 'K32': 'K32 = THETA(5)', 'K13': 'K13 = THETA(6)', 'K31': 'K31 = THETA(7)',
    'K24': 'K24 = THETA(6)', 'K42': 'K42 = THETA(7)', 'ALPHA': 'ALPHA = THETA(1)*EXP(ETA(1))', 'BETA': 'BETA = THETA(2)',
    'GAMMA': 'GAMMA = THETA(6)', 'AOB': 'AOB = THETA(4)', 'VM': 'VM = THETA(1)*EXP(ETA(1))', 'KM': 'KM = THETA(2)',
}
ADVTRANS = {
    (1, 1): ['K'], (1, 2): ['CL', 'V'], (2, 1): ['K', 'KA'], (2, 2): ['CL', 'V', 'KA'],
    (3, 1): ['K', 'K12', 'K21'], (3, 3): ['CL', 'V', 'Q', 'VSS'], (3, 4): ['CL', 'V1', 'Q', 'V2'],
    (3, 5): ['ALPHA', 'BETA', 'AOB'], (3, 6): ['ALPHA', 'BETA', 'K21'],
    (4, 1): ['K', 'K23', 'K32', 'KA'], (4, 3): ['CL', 'V', 'Q', 'VSS', 'KA'], (4, 4): ['CL', 'V2', 'Q', 'V3', 'KA'],
    (4, 5): ['ALPHA', 'BETA', 'AOB', 'KA'], (4, 6): ['ALPHA', 'BETA', 'K32', 'KA'],
    (10, 1): ['VM', 'KM'],
    (11, 1): ['K', 'K12', 'K21', 'K13', 'K31'], (11, 4): ['CL', 'V1', 'Q2', 'V2', 'Q3', 'V3'],
    (11, 6): ['ALPHA', 'BETA', 'GAMMA', 'K21', 'K31'],
    (12, 1): ['K', 'K23', 'K32', 'K24', 'K42', 'KA'], (12, 4): ['CL', 'V2', 'Q3', 'V3', 'Q4', 'V4', 'KA'],
    (12, 6): ['ALPHA', 'BETA', 'GAMMA', 'K32', 'K42', 'KA'],
}


def pk_program(sub, pk, error=None, model=None, des=None, nthetas=7):
    th = ''.join(f'$THETA (0,{0.5 + i})\n' for i in range(nthetas))
    text = HEAD + f'$SUBROUTINE {sub}\n'
    if model:
        text += '$MODEL ' + model + '\n'
    text += '$PK\n' + '\n'.join(pk) + '\n'
    if des:
        text += '$DES\n' + '\n'.join(des) + '\n'
    text += '$ERROR\n' + '\n'.join(error or ['Y = F + F*EPS(1)']) + '\n'
    return text + th + '$OMEGA 0.1\n$OMEGA 0.2\n$SIGMA 0.3\n' + TAIL_EST


def gen_advan_programs():
    progs = []
    obs = {1: 1, 2: 2, 3: 1, 4: 2, 10: 1, 11: 1, 12: 2}
    for (a, t), params in ADVTRANS.items():
        pk = [PKDEF[p] for p in params]
        vol = next((p for p in params if p.startswith('V') and p not in ('VSS', 'VM')), None)
        for scal in ('none', 'S', 'SC'):
            pk2 = list(pk)
            if scal == 'S':
                pk2.append(f'S{obs[a]} = {vol or "THETA(2)"}')
            elif scal == 'SC':
                pk2.append(f'SC = {vol or "THETA(2)"}')
            progs.append((f'advan{a}trans{t}[{scal}]', pk_program(f'ADVAN{a} TRANS{t}', pk2)))
        progs.append((f'advan{a}trans{t}[lag,bio]', pk_program(
            f'ADVAN{a} TRANS{t}', pk + ['ALAG1 = THETA(7)', 'F1 = THETA(6)/(1+THETA(6))'])))
    # general linear and $DES
    progs.append(('advan5[3comp]', pk_program(
        'ADVAN5 TRANS1', ['K12 = THETA(1)', 'K23 = THETA(2)*EXP(ETA(1))', 'K32 = THETA(3)', 'K20 = THETA(4)', 'S2 = THETA(5)'],
        model='COMP=(DEPOT DEFDOSE) COMP=(CENTRAL DEFOBS) COMP=(PERIPH)')))
    progs.append(('advan5[KiTj]', pk_program(
        'ADVAN5 TRANS1', ['K1T2 = THETA(1)', 'K2T0 = THETA(2)*EXP(ETA(1))', 'K2T3 = THETA(3)', 'K3T2 = THETA(4)'],
        model='COMP=(DEPOT DEFDOSE) COMP=(CENTRAL DEFOBS) COMP=(PERIPH)')))
    progs.append(('advan7[2comp]', pk_program(
        'ADVAN7 TRANS1', ['K12 = THETA(1)', 'K21 = THETA(2)', 'K10 = THETA(3)*EXP(ETA(1))', 'S1 = THETA(4)'],
        model='COMP=(CENTRAL DEFDOSE DEFOBS) COMP=(PERIPH)')))
    des_cases = {
        'des[1comp]': (['CL = THETA(1)*EXP(ETA(1))', 'V = THETA(2)', 'S1 = V'], ['DADT(1) = -CL/V*A(1)'],
                       'COMP=(CENTRAL DEFDOSE DEFOBS)'),
        'des[2comp]': (['KA = THETA(1)', 'CL = THETA(2)*EXP(ETA(1))', 'V = THETA(3)', 'S2 = V'],
                       ['DADT(1) = -KA*A(1)', 'DADT(2) = KA*A(1) - CL/V*A(2)'],
                       'COMP=(DEPOT DEFDOSE) COMP=(CENTRAL DEFOBS)'),
        'des[mm]': (['VM = THETA(1)', 'KM = THETA(2)', 'V = THETA(3)*EXP(ETA(1))', 'S1 = V'],
                    ['CONC = A(1)/V', 'DADT(1) = -VM*CONC/(KM + CONC)'], 'COMP=(CENTRAL DEFDOSE DEFOBS)'),
        'des[periph]': (['CL = THETA(1)', 'V1 = THETA(2)', 'Q = THETA(3)', 'V2 = THETA(4)*EXP(ETA(1))', 'S1 = V1'],
                        ['K10 = CL/V1', 'K12 = Q/V1', 'K21 = Q/V2', 'DADT(1) = -(K10+K12)*A(1) + K21*A(2)',
                         'DADT(2) = K12*A(1) - K21*A(2)'], 'COMP=(CENTRAL DEFDOSE DEFOBS) COMP=(PERIPHERAL)'),
        'des[input]': (['KIN = THETA(1)', 'KOUT = THETA(2)*EXP(ETA(1))'], ['DADT(1) = KIN - KOUT*A(1)'],
                       'COMP=(CENTRAL DEFDOSE DEFOBS)'),
        'des[transit]': (['KTR = THETA(1)', 'CL = THETA(2)*EXP(ETA(1))', 'V = THETA(3)', 'S3 = V'],
                         ['DADT(1) = -KTR*A(1)', 'DADT(2) = KTR*A(1) - KTR*A(2)', 'DADT(3) = KTR*A(2) - CL/V*A(3)'],
                         'COMP=(DEPOT DEFDOSE) COMP=(TRANSIT1) COMP=(CENTRAL DEFOBS)'),
        # several terms between one pair of compartments, written in different ways
        'des[parallel]': (['KAF = THETA(1)', 'KAS = THETA(2)', 'CL = THETA(3)*EXP(ETA(1))', 'V = THETA(4)', 'S2 = V'],
                          ['DADT(1) = -KAF*A(1) - KAS*A(1)', 'DADT(2) = KAF*A(1) + KAS*A(1) - CL/V*A(2)'],
                          'COMP=(DEPOT DEFDOSE) COMP=(CENTRAL DEFOBS)'),
        'des[factored]': (['KAF = THETA(1)', 'KAS = THETA(2)', 'CL = THETA(3)*EXP(ETA(1))', 'V = THETA(4)', 'S2 = V'],
                          ['DADT(1) = -(KAF+KAS)*A(1)', 'DADT(2) = (KAF+KAS)*A(1) - CL/V*A(2)'],
                          'COMP=(DEPOT DEFDOSE) COMP=(CENTRAL DEFOBS)'),
        'des[covfactor]': (['KA = THETA(1)', 'CL = THETA(2)*EXP(ETA(1))', 'V = THETA(3)', 'S2 = V'],
                           ['DADT(1) = -KA*A(1)*(1+WGT)', 'DADT(2) = KA*A(1)*(1+WGT) - CL/V*A(2)'],
                           'COMP=(DEPOT DEFDOSE) COMP=(CENTRAL DEFOBS)'),
        'des[two_elim]': (['CL = THETA(1)*EXP(ETA(1))', 'CLR = THETA(2)', 'V = THETA(3)', 'S1 = V'],
                          ['DADT(1) = -CL/V*A(1) - CLR/V*A(1)'], 'COMP=(CENTRAL DEFDOSE DEFOBS)'),
        'des[mm+lin]': (['VM = THETA(1)', 'KM = THETA(2)', 'CL = THETA(3)', 'V = THETA(4)*EXP(ETA(1))', 'S1 = V'],
                        ['DADT(1) = -VM*A(1)/V/(KM + A(1)/V) - CL/V*A(1)'], 'COMP=(CENTRAL DEFDOSE DEFOBS)'),
        'des[split_to_two]': (['KA = THETA(1)', 'FR = THETA(2)/(1+THETA(2))', 'K20 = THETA(3)*EXP(ETA(1))', 'K30 = THETA(4)',
                               'S2 = THETA(5)'],
                              ['DADT(1) = -KA*A(1)', 'DADT(2) = FR*KA*A(1) - K20*A(2)', 'DADT(3) = (1-FR)*KA*A(1) - K30*A(3)'],
                              'COMP=(DEPOT DEFDOSE) COMP=(CENTRAL DEFOBS) COMP=(SIDE)'),
        'des[back_and_forth2]': (['K12 = THETA(1)', 'K21 = THETA(2)', 'K21B = THETA(3)', 'K10 = THETA(4)*EXP(ETA(1))', 'S1 = THETA(5)'],
                                 ['DADT(1) = -K10*A(1) - K12*A(1) + K21*A(2) + K21B*A(2)',
                                  'DADT(2) = K12*A(1) - K21*A(2) - K21B*A(2)'],
                                 'COMP=(CENTRAL DEFDOSE DEFOBS) COMP=(PERIPHERAL)'),
    }
    for name, (pk, des, model) in des_cases.items():
        for adv in ('ADVAN6', 'ADVAN13'):
            progs.append((f'{name}[{adv}]', pk_program(f'{adv} TOL=5', pk, model=model, des=des)))
    # $ERROR forms
    errs = {
        'err[add]': ['Y = F + EPS(1)'], 'err[prop]': ['Y = F*(1 + EPS(1))'],
        'err[comb]': ['W = SQRT(THETA(6)**2 + THETA(7)**2*F**2)', 'Y = F + W*EPS(1)', 'IPRED = F', 'IRES = DV - IPRED',
                      'IWRES = IRES/W'],
        'err[log]': ['IPRED = LOG(F + 0.001)', 'Y = IPRED + EPS(1)'],
        'err[A(n)]': ['CONC = A(1)/V', 'Y = CONC + CONC*EPS(1)'],
        'err[if]': ['IPRED = F', 'IF (IPRED.LT.0.01) IPRED = 0.01', 'Y = IPRED*(1 + EPS(1))'],
    }
    for name, err in errs.items():
        progs.append((name, pk_program('ADVAN1 TRANS2', ['CL = THETA(1)*EXP(ETA(1))', 'V = THETA(2)*EXP(ETA(2))',
                                                        'S1 = V'], error=err)))
    return progs


# ---------------------------------------------------------------------------------------------------------------
# generated family 3: parameter records

def gen_param_programs():
    th = ['1', '(0, 1)', '(0, 1, 10)', '(0,1,10)', '(-INF, 1, INF)', '(0, 1, INF)', '1 FIX', '(1 FIX)', '(0, 1) FIX',
          '(0, 1, 10 FIXED)', '(0,1)x2', '(1)x3', '(1 FIX)x2', '1 2 3', '(0 1 10)', '1.5E-1', '(0,0.5D0)', '-0.5',
          '(-1000000, 1, 1000000)', '(1,1,1)', '(0,1) ; TVCL', '1 2 FIX 3']
    om = ['0.1', '0.1 0.2', '0.1 FIX', 'DIAGONAL(2) 0.1 0.2', 'BLOCK(2) 0.1 0.01 0.2', 'BLOCK(2) 0.1 0.01 0.2 FIX',
          'BLOCK(2) FIX 0.1 0.01 0.2', 'BLOCK(1) 0.1\n$OMEGA BLOCK(1) SAME', 'BLOCK(2) 0.1 0.01 0.2\n$OMEGA BLOCK(2) SAME',
          '(0.1)x2', '(0.1 FIX)', 'SD 0.3', 'STANDARD 0.3 0.4', 'BLOCK(2) SD 0.3 0.01 0.4', 'BLOCK(2) CORRELATION 0.1 0.5 0.2',
          'BLOCK(2) SD CORRELATION 0.3 0.5 0.4', 'BLOCK(2) CHOLESKY 0.3 0.1 0.4', 'BLOCK(3) 0.1 0.01 0.2 0.02 0.03 0.3',
          'BLOCK(2) VARIANCE COVARIANCE 0.1 0.01 0.2', '0.1 ; IIV_CL\n 0.2 ; IIV_V', 'DIAGONAL(3) 0.1 0.2 0.3',
          '(SD 0.3)', 'BLOCK(2)\n 0.1\n 0.01 0.2',
          # SAME(m): the previous block is repeated m times
          'BLOCK(1) 0.1\n$OMEGA BLOCK(1) SAME(2)\n$OMEGA 0.4', 'BLOCK(2) 0.1 0.01 0.2\n$OMEGA BLOCK(2) SAME(2)',
          'BLOCK(1) 0.1\n$OMEGA BLOCK(1) SAME(1)\n$OMEGA 0.4']
    progs = []

    def prog(theta_body, omega_body, neta):
        etas = ''.join(f' + ETA({i})' for i in range(1, neta + 1))
        return (HEAD + f'$PRED\nY = THETA(1){etas} + EPS(1)\n$THETA {theta_body}\n$OMEGA {omega_body}\n$SIGMA 0.3\n' + TAIL_EST)
    for k, t in enumerate(th):
        progs.append((f'theta[{k}] {t}', prog(t, '0.1', 1)))
    import re
    for k, o in enumerate(om):
        # number of etas = declared sizes
        n = 0
        for rec in o.split('$OMEGA'):
            m = re.search(r'(BLOCK|DIAGONAL)\((\d)\)', rec)
            if m:
                rep = re.search(r'SAME\((\d)\)', rec)
                n += int(m.group(2)) * (int(rep.group(1)) if rep else 1)
            else:
                nums = re.findall(r'(?<![A-Za-z(])\b\d*\.?\d+\b', re.sub(r';.*', '', rec))
                rep = re.search(r'\)x(\d)', rec)
                n += int(rep.group(1)) if rep else len(nums)
        progs.append((f'omega[{k}] {o!r}', prog('1', o, max(1, n))))
    return progs


# ---------------------------------------------------------------------------------------------------------------

_W = {}


def _init():
    import warnings
    warnings.simplefilter('ignore')
    import nmcompare
    import nmref
    import semeq
    import corpus
    from pharmpy.modeling import read_model_from_string
    _W.update(nmcompare=nmcompare, nmref=nmref, semeq=semeq, corpus=corpus, read=read_model_from_string)


def run_program(item):
    if not _W:
        _init()
    kind, label, payload = item
    nmref, nmcompare, corpus, semeq = _W['nmref'], _W['nmcompare'], _W['corpus'], _W['semeq']
    out = dict(label=label, kind=kind, results=[], status='ok', queries=0, solver_s=0.0, stats={})
    try:
        if kind == 'file':
            text = corpus.load_text(payload)
            try:
                model = corpus.load(payload)
            except Exception as e:  # noqa  -- unreadable in this environment (pandas) or refused by pharmpy
                out['status'] = f'pharmpy-refused: {type(e).__name__}: {e}'[:160]
                return out
        else:
            text = payload
            try:
                model = _W['read'](text)
            except Exception as e:  # noqa
                out['status'] = f'pharmpy-refused: {type(e).__name__}: {e}'[:160]
                out['text'] = text
                return out
        try:
            res, eq, ref = nmcompare.compare(text, model)
        except nmref.Unsupported as e:
            out['status'] = f'outside-reference-subset: {e}'[:160]
            return out
        except semeq.DenoteError as e:
            out['status'] = f'reference-interpreter-limit: {e}'[:160]
            return out
        out.update(results=res, queries=eq.queries, solver_s=eq.solver_s, stats=eq.stats)
        if kind != 'file':
            out['text'] = text
    except Exception as e:  # noqa
        out['status'] = f'harness-error: {type(e).__name__}: {e}'[:200]
        out['tb'] = traceback.format_exc()[-600:]
    return out


def gen_thorough_programs():
    """deeper grammar: all 4-operand expressions over the 5 operators in 5 parenthesisations; all ordered pairs of
    statement templates (dataflow between IF forms)."""
    progs = []
    A, B, C, D = 'THETA(1)', 'WGT', 'APGR', 'THETA(2)'
    shapes = ['{a} {o1} {b} {o2} {c} {o3} {d}', '({a} {o1} {b}) {o2} ({c} {o3} {d})', '{a} {o1} ({b} {o2} {c}) {o3} {d}',
              '{a} {o1} ({b} {o2} ({c} {o3} {d}))', '(({a} {o1} {b}) {o2} {c}) {o3} {d}']
    for o1, o2, o3 in itertools.product(OPS, repeat=3):
        for k, sh in enumerate(shapes):
            # exponents are kept small constants (NM-TRAN real powers of negative bases are undefined on both sides)
            c = '2' if o2 == '**' else C
            d = '2' if o3 == '**' else D
            b = '2' if o1 == '**' else B
            e = sh.format(a=A, b=b, c=c, d=d, o1=o1, o2=o2, o3=o3)
            progs.append((f'expr4[{o1}{o2}{o3},{k}] {e}', pred_program(['V1 = ' + e, 'Y = V1 + EPS(1)'])))
    T = {
        'assign': ['V1 = THETA(1)*WGT'], 'assign2': ['V2 = V1 + THETA(2)'], 'lif': ['IF (APGR.LT.5) V1 = THETA(2)'],
        'lif2': ['IF (WGT.GT.70) V2 = V1*2'], 'self': ['V1 = V1*V1'],
        'blk': ['IF (APGR.LT.3) THEN', 'V1 = THETA(3)', 'ELSE', 'V1 = V1 + 1', 'ENDIF'],
        'blk2': ['IF (WGT.GT.70) THEN', 'V2 = V1', 'ELSEIF (WGT.GT.50) THEN', 'V2 = 2*V1', 'ELSE', 'V2 = 0', 'ENDIF'],
        'blk_noelse': ['IF (APGR.EQ.1) THEN', 'V2 = THETA(1)', 'ENDIF'],
    }
    for (n1, s1), (n2, s2), (n3, s3) in itertools.product(T.items(), repeat=3):
        progs.append((f'seq[{n1},{n2},{n3}]', pred_program(['V1 = 1', 'V2 = 2'] + s1 + s2 + s3 + ['Y = V1 + V2 + EPS(1)'])))
    return progs


def all_programs(thorough, seed):
    _init()
    corpus = _W['corpus']
    progs = [('file', f.split('nonmem/')[-1].split('example_models/')[-1], f) for f in corpus.all_model_files()]
    gen = gen_code_programs() + gen_advan_programs() + gen_param_programs()
    if thorough:
        extra = gen_thorough_programs()
        random.Random(seed).shuffle(extra)
        gen += extra
    progs += [('gen', label, text) for label, text in gen]
    return progs


def replay(path):
    with open(path) as f:
        d = json.load(f)
    r = d['replay']
    res = run_program((r['kind'], r['label'], r['payload']))
    bad = [(o, dd) for o, v, dd in res['results'] if v == 'violated']
    print(json.dumps(dict(label=res['label'], status=res['status'], violated=bad), default=str, indent=1))
    return 1 if bad else 0


def main():
    if '--replay' in sys.argv:
        sys.exit(replay(sys.argv[sys.argv.index('--replay') + 1]))
    run = Run('C01', 'translation_validation')
    thorough = run.tier == 'thorough'
    progs = all_programs(thorough, run.seed)
    budget = 1500 if thorough else 240
    nproc = int(os.environ.get('VERIF_JOBS', 0)) or min(16, os.cpu_count() or 4)
    t0 = time.time()
    stats = dict(unsat=0, sat_confirmed=0, sat_unreplayable=0, unknown=0, unsupported=0)
    status = {}
    nq, solver_s, compared, done = 0, 0.0, 0, 0
    counts = {}
    viol = []
    cut = None
    with mp.Pool(nproc, initializer=_init) as pool:
        for res, item in zip(pool.imap(run_program, progs, chunksize=2), progs):
            done += 1
            st = res['status'].split(':')[0]
            status[st] = status.get(st, 0) + 1
            if res['status'].startswith('harness-error'):
                run.harness_error(f'{res["label"]}: {res["status"]} {res.get("tb", "")[-300:]}')
                continue
            if res['status'] != 'ok':
                if res['status'].startswith('pharmpy-refused') and res['kind'] == 'gen' and len(run.obligations) < 60:
                    run.add(f'refused[{res["label"]}]', 'inconclusive', 0, res['status'])
                continue
            compared += 1
            nq += res['queries']
            solver_s += res['solver_s']
            for k, v in res['stats'].items():
                stats[k] += v
            for ob, verdict, detail in res['results']:
                fam = ob.split('[')[0]
                counts[(fam, verdict)] = counts.get((fam, verdict), 0) + 1
                if verdict == 'violated':
                    viol.append((res['label'], ob, detail, item))
                elif verdict == 'inconclusive' and len(run.obligations) < 60:
                    run.add(f'{ob} @ {res["label"]}', 'inconclusive', 0, detail)
            if done % 23 == 0:
                run.sample(dict(program=res['label'], checks=[(o, v) for o, v, _ in res['results']][:8]))
            if time.time() - t0 > budget:
                cut = f'stopped by time budget after {done} of {len(progs)} programs'
                break
        pool.terminate()
    for (fam, verdict), c in sorted(counts.items()):
        if verdict == 'discharged':
            run.add(fam, 'discharged', 0, dict(equalities=c))
    # violations: each is matched against the known findings by "label :: obligation"; unknown ones are reported (one
    # VIOLATION line per program family)
    reported = set()
    for label, ob, detail, item in viol:
        key = f'{label} :: {ob}'
        e = run.match_known(key)
        if e is not None:
            if e['id'] not in [k for k, _ in run.known_hits]:
                run.known_hits.append((e['id'], e['what']))
            run.add(f'{ob} @ {label}', 'known', 0, detail)
            continue
        fam = label.split('[')[0]
        if fam in reported:
            run.add(f'{ob} @ {label}', 'violated', 0, detail)
            continue
        reported.add(fam)
        v = run.report_violation(f'{fam}', key, dict(kind=item[0], label=item[1], payload=item[2]),
                                 f'{label}: {ob}: ' + json.dumps(detail, default=str)[:700])
        run.add(f'{ob} @ {label}', v, 0, detail)
    run.functions = ['read_model_from_string / Model.parse_model', 'NMTranParser', 'CodeRecord._parse_tree',
                     'advan._compartmental_model', 'to_compartmental_system', 'parse_parameters', 'rvs_from_blocks',
                     'ThetaRecord.parse', 'OmegaRecord.parse', 'internals/expr/funcs.py']
    run.bounds = dict(programs='all control streams under tests/testdata/nonmem and internals/example_models that this '
                               'environment can read + generated: precedence/associativity expression forms, every '
                               'intrinsic/protected function, all relational/logical operator spellings, logical and '
                               'block IF templates (ELSEIF/ELSE, nested, reassignment), ADVAN1-4,10-12 x TRANS1-6 with '
                               'S/SC/ALAG/F variants, ADVAN5/7, $DES (ADVAN6/13), $ERROR forms, $THETA/$OMEGA forms',
                      outside='verbatim code, CALL/EXIT/DO WHILE, $MIX, $ABBREVIATED, multiple $PROBLEM, data-dependent '
                              'dose typing beyond pheno.dta, NONMEM run-time behaviour; programs the reference cannot '
                              'interpret are skipped and counted')
    run.assumptions = ['trusted base: lib/nmref.py (NM-TRAN/PREDPP rules as in DESIGN.md Appendix A), validated on the '
                       'repository corpus (agreement with pharmpy on all readable files)',
                       'equality on the common domain of definition; an unassigned variable is one shared opaque value',
                       'identical right-hand sides + identical dose attachments => identical amounts (uniqueness of ODE '
                       'solutions); the ODE is never solved',
                       'exp/log/... uninterpreted with sound axioms; sat models are replayed numerically with the real '
                       'functions before a violation is reported']
    run.extra['explanation'] = 'translation validation NM-TRAN -> model IR against an independent reference semantics'
    run.finish(coverage=dict(programs=compared, disagreements_checked=stats['sat_confirmed'], queries=nq,
                             solver_stats=stats, program_status=status, cut=cut, exhaustive=cut is None,
                             evaluations=max(1, done), distinct_nontrivial=max(2, compared),
                             rule='one case = one control stream; distinct by text; non-trivial = read by pharmpy and '
                                  'inside the reference subset (compared)',
                             solver_time_s=round(solver_s, 1)))


if __name__ == '__main__':
    main()
