"""C05 — compartmental system graph and its differential equations always agree.

Topologies / builder histories are enumerated within the bound; for each resulting system z3 decides, for ALL values of
rates, amounts and inputs, that pharmpy's eqs / compartmental_matrix / amounts / compartment_names / zero_order_inputs
describe the system the builder calls *declared* (the harness keeps its own table of declared flows keyed by
compartment name): per-compartment balance, mass balance, one shared order of the four views, conversion back
(to_compartmental_system), subs and dict round trip.
"""
import itertools
import json
import multiprocessing as mp
import os
import random
import sys
import time

from vcommon import Run

NAMES = {1: ['CENTRAL'], 2: ['DEPOT', 'CENTRAL'], 3: ['DEPOT', 'CENTRAL', 'PERIPHERAL1'],
         4: ['DEPOT', 'CENTRAL', 'PERIPHERAL1', 'EFFECT']}
_W = {}


def _init():
    import sympy
    import sym2smt
    from pharmpy.basic import Expr
    from pharmpy.model import Bolus, Compartment, CompartmentalSystem, CompartmentalSystemBuilder, Infusion, output
    from pharmpy.model.statements import to_compartmental_system
    _W.update(sympy=sympy, sym2smt=sym2smt, Expr=Expr, Bolus=Bolus, Infusion=Infusion, Compartment=Compartment,
              CS=CompartmentalSystem, CSB=CompartmentalSystemBuilder, output=output, tocs=to_compartmental_system)


def topologies(n):
    """all (edge set, output subset, dose compartment index or None, nonlinear edge index or None, input flags)"""
    names = NAMES[n]
    pairs = [(a, b) for a in range(n) for b in range(n) if a != b]
    for k in range(len(pairs) + 1):
        for edges in itertools.combinations(pairs, k):
            for outs in itertools.product([0, 1], repeat=n):
                for dose in [None] + list(range(n)):
                    yield dict(n=n, edges=edges, outs=outs, dose=dose)


class Declared:
    """The harness's own record of what the builder calls declared (keyed by compartment NAME)."""

    def __init__(self):
        self.comps = []          # names in declaration order
        self.flows = {}          # (src, dst) -> rate sympy ; dst None = output
        self.inputs = {}         # name -> sympy
        self.doses = {}          # name -> list of (kind, admid, amount str)
        self.lag = {}
        self.bio = {}

    def copy(self):
        import copy
        return copy.deepcopy(self)


def build_topology(spec, variant=0):
    sympy = _W['sympy']
    Expr, Compartment, CSB, Bolus, output = _W['Expr'], _W['Compartment'], _W['CSB'], _W['Bolus'], _W['output']
    n = spec['n']
    names = NAMES[n]
    dec = Declared()
    cb = CSB()
    comps = []
    for i, nm in enumerate(names):
        kwargs = {}
        if spec['dose'] == i:
            kwargs['doses'] = (Bolus.create('AMT'),)
            dec.doses[nm] = [('Bolus', 1, 'AMT')]
        if spec.get('dose2') == i:
            kwargs['doses'] = (_W['Infusion'].create('AMT', admid=2, duration='D2'),)
            dec.doses[nm] = [('Infusion', 2, 'AMT')]
        if variant and i == (variant % n):
            kwargs['input'] = Expr.symbol(f'R_{nm}')
            dec.inputs[nm] = sympy.Symbol(f'R_{nm}')
        if variant == 2 and i == 0:
            kwargs['lag_time'] = Expr.symbol('ALAG')
            kwargs['bioavailability'] = Expr.symbol('BIO')
            dec.lag[nm] = sympy.Symbol('ALAG')
            dec.bio[nm] = sympy.Symbol('BIO')
        c = Compartment.create(nm, **kwargs)
        comps.append(c)
        cb.add_compartment(c)
        dec.comps.append(nm)
    for j, (a, b) in enumerate(spec['edges']):
        if variant == 1 and j == 0:
            # nonlinear (Michaelis-Menten) rate
            rate = sympy.Symbol('VM') / (sympy.Symbol('KM') + sympy.Function(f'A_{names[a]}')(sympy.Symbol('t')))
        elif variant == 3 and j == 0:
            # a rate that is a sum of two parameters (two parallel first-order processes between one pair)
            rate = sympy.Symbol(f'K_{names[a]}_{names[b]}') + sympy.Symbol('KX')
        elif variant == 3 and j == 1:
            rate = (sympy.Symbol(f'Q_{names[a]}_{names[b]}') + sympy.Symbol('QX')) / sympy.Symbol(f'V_{names[a]}')
        elif variant == 5 and j == 0:
            # second-order (binding) flow: the rate depends on the amount of the RECEIVING compartment
            rate = sympy.Symbol('KON') * sympy.Function(f'A_{names[b]}')(sympy.Symbol('t'))
        elif variant == 4:
            # clearance / volume parameterisation: every flow out of a compartment shares its volume
            rate = sympy.Symbol(f'Q_{min(a, b)}{max(a, b)}') / sympy.Symbol(f'V_{names[a]}')
        else:
            rate = sympy.Symbol(f'K_{names[a]}_{names[b]}')
        cb.add_flow(comps[a], comps[b], Expr(rate))
        dec.flows[(names[a], names[b])] = rate
    for i, o in enumerate(spec['outs']):
        if o:
            rate = sympy.Symbol(f'KOUT_{names[i]}')
            if variant == 3:
                rate = rate + sympy.Symbol('KX')
            elif variant == 4:
                rate = sympy.Symbol(f'CL_{names[i]}') / sympy.Symbol(f'V_{names[i]}')
            cb.add_flow(comps[i], output, Expr(rate))
            dec.flows[(names[i], None)] = rate
    return cb, dec


def amount_fn(name):
    sympy = _W['sympy']
    return sympy.Function(f'A_{name}')(sympy.Symbol('t'))


def declared_rhs(dec, name):
    sympy = _W['sympy']
    r = sympy.Integer(0)
    for (s, d), rate in dec.flows.items():
        if d == name:
            r += rate * amount_fn(s)
        if s == name:
            r -= rate * amount_fn(s)
    r += dec.inputs.get(name, 0)
    return r


def positivity(dec):
    """rates are positive, amounts non-negative (the quantifier of the property)."""
    sympy = _W['sympy']
    out = []
    for rate in dec.flows.values():
        for s in rate.free_symbols:
            if s.name != 't':
                out.append(s > 0)
    for nm in dec.comps:
        out.append(amount_fn(nm) >= 0)
    return out


def check_system(cb, dec, label, do_convert=True):
    """returns list of (obligation, verdict, detail)."""
    sympy, sym2smt = _W['sympy'], _W['sym2smt']
    CS, Expr, tocs = _W['CS'], _W['Expr'], _W['tocs']
    eq = sym2smt.Equiv(timeout_ms=10000)
    out = []

    def rec(ob, verdict, **d):
        out.append((ob, verdict, dict(system=label, **d)))

    try:
        cs = CS(cb)
        names = cs.compartment_names
        amounts = [a._sympy_() for a in cs.amounts]
        eqs = [e._sympy_() for e in cs.eqs]
        M = cs.compartmental_matrix
        u = [x._sympy_() for x in cs.zero_order_inputs]
    except Exception as e:  # noqa
        rec('views', 'violated', error=f'{type(e).__name__}: {e}', kind='internal error')
        return out, eq
    n = len(names)
    pos = positivity(dec)
    # one consistent order, consisting of exactly the declared compartments
    if sorted(names) != sorted(dec.comps) or len(amounts) != n or len(eqs) != n or len(u) != n:
        rec('order', 'violated', names=names, declared=dec.comps)
        return out, eq
    bad = None
    for i, nm in enumerate(names):
        if amounts[i] != amount_fn(nm):
            bad = f'amounts[{i}]={amounts[i]} but compartment_names[{i}]={nm}'
        lhs = eqs[i].lhs
        if not (isinstance(lhs, sympy.Derivative) and lhs.args[0] == amounts[i]):
            bad = f'eqs[{i}].lhs={lhs} but amounts[{i}]={amounts[i]}'
    if bad:
        rec('order', 'violated', what=bad)
        return out, eq
    rec('order', 'discharged')
    # (i) per-compartment balance; (iii) matrix view; inputs
    total = sympy.Integer(0)
    for i, nm in enumerate(names):
        ref = declared_rhs(dec, nm)
        total += eqs[i].rhs
        v, info = eq.check(eqs[i].rhs, ref, extra=pos)
        if v == 'differ':
            rec('balance', 'violated', compartment=nm, eq=str(eqs[i].rhs), declared=str(ref), witness=info)
        else:
            rec('balance', 'discharged' if v == 'equal' else 'inconclusive', info=None if v == 'equal' else info)
        row = sum((M[i, j]._sympy_() * amounts[j] for j in range(n)), sympy.Integer(0)) + u[i]
        v, info = eq.check(row, eqs[i].rhs, extra=pos)
        if v == 'differ':
            rec('matrix_row', 'violated', compartment=nm, row=str(row), eq=str(eqs[i].rhs), witness=info)
        else:
            rec('matrix_row', 'discharged' if v == 'equal' else 'inconclusive')
        v, info = eq.check(u[i], dec.inputs.get(nm, sympy.Integer(0)))
        rec('zero_order_input', 'violated' if v == 'differ' else ('discharged' if v == 'equal' else 'inconclusive'),
            **({'compartment': nm, 'got': str(u[i])} if v == 'differ' else {}))
        for j, nm2 in enumerate(names):
            if i != j:
                ref = dec.flows.get((nm, nm2), sympy.Integer(0))
                v, info = eq.check(M[j, i]._sympy_(), ref, extra=pos)
                if v == 'differ':
                    rec('matrix_entry', 'violated', entry=f'M[{j},{i}] ({nm}->{nm2})', got=str(M[j, i]),
                        declared=str(ref), witness=info)
                elif v != 'equal':
                    rec('matrix_entry', 'inconclusive')
    if not any(o == 'matrix_entry' and v == 'violated' for o, v, _ in out):
        rec('matrix_entry', 'discharged')
    # (ii) mass balance
    ref = sum((-rate * amount_fn(s) for (s, d), rate in dec.flows.items() if d is None), sympy.Integer(0)) + \
        sum(dec.inputs.values(), sympy.Integer(0))
    v, info = eq.check(total, ref, extra=pos)
    if v == 'differ':
        rec('mass_balance', 'violated', total=str(total), declared=str(ref), witness=info)
    else:
        rec('mass_balance', 'discharged' if v == 'equal' else 'inconclusive')
    # doses / lag / bioavailability as declared
    for nm in names:
        c = cs.find_compartment(nm)
        got = sorted((type(d).__name__, d.admid, str(d.amount)) for d in c.doses)   # the order of doses is not semantic
        if got != sorted(tuple(x) for x in dec.doses.get(nm, [])):
            rec('doses', 'violated', compartment=nm, got=got, declared=dec.doses.get(nm, []))
        if c.lag_time._sympy_() != dec.lag.get(nm, sympy.Integer(0)) or \
                c.bioavailability._sympy_() != dec.bio.get(nm, sympy.Integer(1)):
            rec('lag_bio', 'violated', compartment=nm, lag=str(c.lag_time), bio=str(c.bioavailability))
    if not any(o in ('doses', 'lag_bio') for o, v, _ in out):
        rec('doses', 'discharged')
    # (v) subs and dict round trip
    try:
        sub = {}
        for rate in dec.flows.values():
            for s in rate.free_symbols:
                if s.name.startswith('K'):
                    sub[Expr.symbol(s.name)] = Expr.symbol(s.name) * 2 + Expr.symbol('W')
        sub[Expr.symbol('AMT')] = Expr.symbol('DOSE')
        sub[Expr.symbol('ALAG')] = Expr.symbol('ALAG2')
        cs2 = cs.subs(sub)
        ssub = {k._sympy_(): v._sympy_() for k, v in sub.items()}
        names2 = cs2.compartment_names
        ok = True
        for eq2, nm in zip(cs2.eqs, names2):
            ref = declared_rhs(dec, nm).xreplace(ssub)
            v, info = eq.check(eq2._sympy_().rhs, ref, extra=pos + [sympy.Symbol('W') > 0])
            if v == 'differ':
                rec('subs', 'violated', compartment=nm, got=str(eq2.rhs), reference=str(ref), witness=info)
                ok = False
        for nm in names2:
            c = cs2.find_compartment(nm)
            got = sorted((type(d).__name__, d.admid, str(d.amount)) for d in c.doses)   # the order of doses is not semantic
            want = sorted((k, a, 'DOSE' if amt == 'AMT' else amt) for k, a, amt in dec.doses.get(nm, []))
            lagw = dec.lag.get(nm, sympy.Integer(0)).xreplace(ssub)
            if got != want or c.lag_time._sympy_() != lagw:
                rec('subs', 'violated', compartment=nm, doses=got, declared=want, lag=str(c.lag_time))
                ok = False
        if ok:
            rec('subs', 'discharged')
        # (v') substitution of an amount function: first make one rate depend on the amount of its source (a
        # saturable flow), then rename that amount; the result must be a closed system over the renamed amounts
        srcs = [sname for (sname, _d) in dec.flows]
        if srcs:
            X = srcs[0]
            ksyms = sorted({x for (sname, _d), rate in dec.flows.items() if sname == X for x in rate.free_symbols
                            if x.name.startswith('K')}, key=str)
            AX, AXR = amount_fn(X), amount_fn(X + 'R')
            s1 = {ksyms[0]: ksyms[0] / (1 + AX)} if ksyms else {}
            s2 = {AX: AXR}
            csn = cs.subs({Expr(k): Expr(v) for k, v in s1.items()}) if s1 else cs
            csr = csn.subs({Expr(AX): Expr(AXR)})
            amts = [a._sympy_() for a in csr.amounts]
            okA = True
            lhs = [e._sympy_().lhs.args[0] for e in csr.eqs]
            if lhs != amts or (AXR in amts) == (AX in amts):
                rec('subs_amount', 'violated', what='amounts / left-hand sides after renaming an amount', amounts=str(amts), lhs=str(lhs))
                okA = False
            else:
                for e in csr.eqs:
                    fns = {f for f in e._sympy_().rhs.atoms(sympy.Function) if str(f.func).startswith('A_')}
                    if not fns <= set(amts):
                        rec('subs_amount', 'violated', what='right-hand side refers to a function that is not an amount of the system',
                            eq=str(e), amounts=str(amts))
                        okA = False
                        break
            if okA:
                for e2, nm in zip(csr.eqs, csr.compartment_names):
                    ref = declared_rhs(dec, nm).xreplace(s1).xreplace(s2)
                    v, info = eq.check(e2._sympy_().rhs, ref, extra=pos + [AXR >= 0])
                    if v == 'differ':
                        rec('subs_amount', 'violated', compartment=nm, got=str(e2.rhs), reference=str(ref), witness=info)
                        okA = False
                        break
            if okA:
                rec('subs_amount', 'discharged')
        d = cs.to_dict()
        cs3 = CS.from_dict(json.loads(json.dumps(d)))
        try:
            same = cs3 == cs
        except ValueError as e:
            # `==` itself fails (separate obligation, so that a lossy round trip is still reported on its own)
            rec('eq_total', 'violated', error=f'{type(e).__name__}: {e}', kind='CompartmentalSystem.__eq__ raises')
            same = json.dumps(cs3.to_dict(), sort_keys=True) == json.dumps(d, sort_keys=True)
        if not same or [str(e) for e in cs3.eqs] != [str(e) for e in cs.eqs]:
            rec('dict_roundtrip', 'violated', what='from_dict(to_dict(cs)) != cs')
        else:
            rec('dict_roundtrip', 'discharged')
    except Exception as e:  # noqa
        rec('subs_dict', 'violated', error=f'{type(e).__name__}: {e}', kind='internal error')
    # (iv) conversion back
    if do_convert:
        try:
            namemap = {Expr(a): nm for a, nm in zip(amounts, names)}
            cs4 = tocs(namemap, [e for e in eqs])
            by_amt = {e._sympy_().lhs.args[0]: e._sympy_().rhs for e in cs4.eqs}
            ok = True
            for i, nm in enumerate(names):
                got = by_amt.get(amounts[i])
                if got is None:
                    rec('convert_back', 'violated', what=f'compartment {nm} lost')
                    ok = False
                    continue
                v, info = eq.check(got, eqs[i].rhs, extra=pos)
                if v == 'differ':
                    rec('convert_back', 'violated', compartment=nm, got=str(got), eq=str(eqs[i].rhs), witness=info)
                    ok = False
                elif v != 'equal':
                    rec('convert_back', 'inconclusive')
                    ok = False
            if ok:
                rec('convert_back', 'discharged')
        except Exception as e:  # noqa
            rec('convert_back', 'violated', error=f'{type(e).__name__}: {e}', kind='internal error')
    return out, eq


# ---------------------------------------------------------------------------------------------------------------
# builder histories

OPS = ['add_comp', 'remove_comp', 'add_flow', 'remove_flow', 'add_out', 'move_dose', 'set_dose', 'add_dose',
       'remove_dose', 'set_lag', 'set_bio', 'set_input']

SEEDS = [
    dict(n=1, edges=(), outs=(1,), dose=0),
    dict(n=2, edges=((0, 1),), outs=(0, 1), dose=0),
    dict(n=3, edges=((0, 1), (1, 2), (2, 1)), outs=(0, 1, 0), dose=0),
    dict(n=2, edges=((0, 1), (1, 0)), outs=(1, 0), dose=1),
    # parent / metabolite with oral + iv dosing: two dosing compartments, two compartments with an output flow
    dict(n=3, edges=((0, 1), (1, 2)), outs=(0, 1, 1), dose=0, dose2=1),
]


def op_instances(dec):
    """concrete instances of each op applicable to the current declared state (deterministic, small)."""
    comps = list(dec.comps)
    inst = []
    if 'NEW1' not in comps:
        inst.append(('add_comp', 'NEW1'))
    for c in comps[:2] + comps[-1:]:
        inst.append(('remove_comp', c))
    for a in comps[:2]:
        for b in comps[-2:]:
            if a != b:
                inst.append(('add_flow', a, b))
                if (a, b) in dec.flows:
                    inst.append(('remove_flow', a, b))
    for a in comps[-1:]:
        inst.append(('add_out', a))
    dosed = [c for c in comps if dec.doses.get(c)]
    for a in dosed[:1]:
        for b in comps:
            if b != a:
                inst.append(('move_dose', a, b))
                break
        inst.append(('remove_dose', a))
    for a in dosed:
        inst.append(('add_infusion', a))
        inst.append(('set_lag', a))
        inst.append(('set_bio', a))
    for a in comps[-1:]:
        inst.append(('set_dose', a))
        inst.append(('add_dose', a))
        inst.append(('add_infusion', a))
        inst.append(('set_lag', a))
        inst.append(('set_bio', a))
        inst.append(('set_input', a))
    # dedupe
    seen = []
    for i in inst:
        if i not in seen:
            seen.append(i)
    return seen


def apply_op(cb, dec, op, step):
    """apply to the REAL builder and to the declared table (the harness's model of what the call declares)."""
    sympy = _W['sympy']
    Expr, Compartment, Bolus, Infusion, output = (_W['Expr'], _W['Compartment'], _W['Bolus'], _W['Infusion'],
                                                   _W['output'])
    kind = op[0]
    find = cb.find_compartment
    if kind == 'add_comp':
        cb.add_compartment(Compartment.create(op[1]))
        dec.comps.append(op[1])
    elif kind == 'remove_comp':
        cb.remove_compartment(find(op[1]))
        nm = op[1]
        dec.comps.remove(nm)
        dec.flows = {k: v for k, v in dec.flows.items() if nm not in k}
        for t in (dec.inputs, dec.doses, dec.lag, dec.bio):
            t.pop(nm, None)
    elif kind == 'add_flow':
        rate = sympy.Symbol(f'KN{step}_{op[1]}_{op[2]}')
        cb.add_flow(find(op[1]), find(op[2]), Expr(rate))
        dec.flows[(op[1], op[2])] = rate
    elif kind == 'remove_flow':
        cb.remove_flow(find(op[1]), find(op[2]))
        del dec.flows[(op[1], op[2])]
    elif kind == 'add_out':
        rate = sympy.Symbol(f'KNOUT{step}_{op[1]}')
        cb.add_flow(find(op[1]), output, Expr(rate))
        dec.flows[(op[1], None)] = rate
    elif kind == 'move_dose':
        cb.move_dose(find(op[1]), find(op[2]))
        dec.doses[op[2]] = dec.doses.get(op[2], []) + dec.doses.get(op[1], [])
        dec.doses.pop(op[1], None)
    elif kind == 'set_dose':
        cb.set_dose(find(op[1]), Infusion.create('AMT', admid=2, rate='RATE'))
        dec.doses[op[1]] = [('Infusion', 2, 'AMT')]
    elif kind == 'add_dose':
        cb.add_dose(find(op[1]), Bolus.create('AMT2', admid=3))
        dec.doses[op[1]] = dec.doses.get(op[1], []) + [('Bolus', 3, 'AMT2')]
    elif kind == 'add_infusion':
        # a second dose of another kind on a compartment (bolus stored before infusion)
        cb.add_dose(find(op[1]), Infusion.create('AMT4', admid=4, duration='D4'))
        dec.doses[op[1]] = dec.doses.get(op[1], []) + [('Infusion', 4, 'AMT4')]
    elif kind == 'remove_dose':
        cb.remove_dose(find(op[1]))
        dec.doses.pop(op[1], None)
    elif kind == 'set_lag':
        cb.set_lag_time(find(op[1]), Expr.symbol(f'LAG{step}'))
        dec.lag[op[1]] = sympy.Symbol(f'LAG{step}')
    elif kind == 'set_bio':
        cb.set_bioavailability(find(op[1]), Expr.symbol(f'BIO{step}'))
        dec.bio[op[1]] = sympy.Symbol(f'BIO{step}')
    elif kind == 'set_input':
        cb.set_input(find(op[1]), Expr.symbol(f'RIN{step}'))
        dec.inputs[op[1]] = sympy.Symbol(f'RIN{step}')
    dec.doses = {k: v for k, v in dec.doses.items() if v}


def histories(seed_idx, depth):
    """enumerate op sequences by replaying on the declared table only (cheap), depth-first."""
    if not _W:
        _init()
    _, dec0 = build_topology(SEEDS[seed_idx], 0)

    def rec(dec, prefix, d):
        if d == 0:
            return
        for op in op_instances(dec):
            dec2 = dec.copy()
            try:
                _apply_dec_only(dec2, op, len(prefix))
            except Exception:
                continue
            yield prefix + (op,)
            yield from rec(dec2, prefix + (op,), d - 1)
    yield from rec(dec0, (), depth)


class _NullBuilder:
    def __getattr__(self, name):
        return lambda *a, **k: None

    def find_compartment(self, nm):
        return nm


def _apply_dec_only(dec, op, step):
    apply_op(_NullBuilder(), dec, op, step)


def run_case(case):
    if not _W:
        _init()
    kind = case[0]
    try:
        if kind == 'topo':
            _, spec, variant = case
            cb, dec = build_topology(spec, variant)
            label = f"n={spec['n']} edges={spec['edges']} outs={spec['outs']} dose={spec['dose']} variant={variant}"
            # conversion back needs sympy assumptions machinery (slow): only for systems with at most 4 flows
            res, eq = check_system(cb, dec, label, do_convert=len(spec['edges']) + sum(spec['outs']) <= 4)
        else:
            _, seed_idx, ops = case
            cb, dec = build_topology(SEEDS[seed_idx], 0)
            label = f'seed{seed_idx} ' + ' ; '.join('(' + ','.join(map(str, o)) + ')' for o in ops)
            for step, op in enumerate(ops):
                apply_op(cb, dec, op, step)
            res, eq = check_system(cb, dec, label, do_convert=False)
    except Exception as e:  # noqa
        import traceback
        return dict(case=case, results=[('builder', 'violated', dict(system=str(case), kind='internal error',
                                                                    error=f'{type(e).__name__}: {e}',
                                                                    tb=traceback.format_exc()[-600:]))],
                    queries=0, solver_s=0.0, stats={})
    return dict(case=case, results=res, queries=eq.queries, solver_s=eq.solver_s, stats=eq.stats)


def replay(path):
    with open(path) as f:
        d = json.load(f)

    def tup(x):
        return tuple(tup(i) for i in x) if isinstance(x, list) else x
    case = d['replay']['case']
    if case[0] == 'topo':
        spec = case[1]
        spec['edges'] = tup(spec['edges'])
        spec['outs'] = tup(spec['outs'])
        case = ('topo', spec, case[2])
    else:
        case = ('hist', case[1], tup(case[2]))
    res = run_case(case)
    bad = [(o, dd) for o, v, dd in res['results'] if v == 'violated']
    print(json.dumps(dict(case=str(case), violated=bad), default=str, indent=1))
    return 1 if bad else 0


def main():
    if '--replay' in sys.argv:
        sys.exit(replay(sys.argv[sys.argv.index('--replay') + 1]))
    run = Run('C05', 'translation_validation')
    thorough = run.tier == 'thorough'
    budget = 1500 if thorough else 200
    cases = []
    for n in (1, 2, 3):
        for spec in topologies(n):
            cases.append(('topo', spec, 0))
    # variants with a nonlinear rate / zero-order input / lag+bioavailability on a thinner family
    for n in (2, 3):
        for spec in topologies(n):
            if len(spec['edges']) in (1, 2, 3) and spec['dose'] is not None:
                for variant in (1, 2, 3, 4, 5):
                    if variant >= 3 and n == 3 and sum(spec['outs']) != 1:
                        continue        # sum / shared-symbol rates: n = 3 only with exactly one output flow
                    if variant == 5 and (n == 3 or len(spec['edges']) > 2):
                        continue        # second-order flows: n = 2 only (region of a known finding)
                    cases.append(('topo', spec, variant))
    n_topo = len(cases)
    _init()
    hist = []
    depth = 3 if thorough else 2
    for si in range(len(SEEDS)):
        for ops in histories(si, depth):
            hist.append(('hist', si, ops))
    extra = []
    if thorough:
        rnd = random.Random(run.seed)
        n4 = [('topo', spec, 0) for spec in topologies(4) if len(spec['edges']) <= 4]
        rnd.shuffle(n4)
        extra = n4
    rnd = random.Random(run.seed)
    order = cases + hist
    if not thorough:
        # quick: the n=3 family is large; keep n<=2 + histories complete and visit n=3 in seeded order within budget
        small = [c for c in cases if c[1]['n'] <= 2] + hist
        big = [c for c in cases if c[1]['n'] == 3]
        # the rate-shape variants of n = 3 are visited before the plain n = 3 family
        small += [c for c in big if c[2] >= 3 and len(c[1]['edges']) <= 2]
        big = [c for c in big if not (c[2] >= 3 and len(c[1]['edges']) <= 2)]
        rnd.shuffle(big)
        order = small + big
    order = order + extra
    nproc = int(os.environ.get('VERIF_JOBS', 0)) or min(16, os.cpu_count() or 4)
    t0 = time.time()
    counts = {}
    stats = dict(unsat=0, sat_confirmed=0, sat_unreplayable=0, unknown=0, unsupported=0)
    nq = 0
    solver_s = 0.0
    done = 0
    cut = None
    viol = {}
    with mp.Pool(nproc, initializer=_init) as pool:
        for res in pool.imap(run_case, order, chunksize=8):
            done += 1
            nq += res['queries']
            solver_s += res['solver_s']
            for k, v in res['stats'].items():
                stats[k] += v
            for ob, verdict, detail in res['results']:
                counts[(ob, verdict)] = counts.get((ob, verdict), 0) + 1
                if verdict == 'violated':
                    viol.setdefault(ob, []).append((detail, res['case']))
                elif verdict == 'inconclusive' and len(run.obligations) < 50:
                    run.add(f'{ob}[{detail.get("system")}]', 'inconclusive', 0, detail)
            if done % 101 == 0:
                run.sample(dict(system=res['results'][0][2].get('system') if res['results'] else str(res['case']),
                                obligations=sorted({o for o, v, _ in res['results']})))
            if time.time() - t0 > budget:
                cut = f'stopped by time budget after {done} of {len(order)} systems'
                break
        pool.terminate()
    for (ob, verdict), c in sorted(counts.items()):
        if verdict == 'discharged':
            run.add(ob, 'discharged', 0, dict(cases=c))
    for ob, lst in viol.items():
        # every violating system is matched against the known findings; of those not listed, the shortest is reported
        unknown = []
        for detail, case in lst:
            key = f'{ob} :: {detail.get("system")} :: {detail.get("kind", "")} {detail.get("error", "")}'
            e = run.match_known(key)
            if e is None:
                unknown.append((detail, case, key))
            elif e['id'] not in [k for k, _ in run.known_hits]:
                run.known_hits.append((e['id'], e['what']))
        if unknown:
            detail, case, key = min(unknown, key=lambda x: len(x[0]['system']))
            v = run.report_violation(ob, key, dict(kind='C05', case=case), json.dumps(detail, default=str)[:700])
            run.add(ob, v, 0, detail, cases=len(unknown))
        else:
            run.add(ob, 'known', 0, lst[0][0], cases=len(lst))
    run.functions = ['CompartmentalSystemBuilder.*', 'CompartmentalSystem.eqs', 'compartmental_matrix', 'amounts',
                     'compartment_names', 'zero_order_inputs', '_order_compartments', 'subs', 'to_dict', 'from_dict',
                     'to_compartmental_system', 'Compartment.replace/subs', 'canonical_ode_rhs']
    run.bounds = dict(compartments='n<=3 all digraphs x output subsets x dose placement (thorough also n=4 with <=4 '
                                   'flows, seeded order)',
                      variants='one Michaelis-Menten rate; zero-order input; lag time + bioavailability; rates that are sums of '
                               'parameters (K + KX, (Q + QX)/V); clearance/volume rates sharing symbols between flows; a second-order '
                               '(binding) flow KON*A_target (n = 2)',
                      histories=f'all op sequences of length <= {depth} from {len(SEEDS)} seeds over {OPS}',
                      outside='n=5,6; histories longer than the bound; conversion back only for systems with <= 4 flows')
    run.assumptions = ['oracle = harness-kept table of declared flows/inputs/doses keyed by compartment name, updated '
                       'by the harness in parallel with each real builder call',
                       'rates positive, amounts non-negative', 'z3 decides every equality over all rate/amount values']
    run.extra['explanation'] = 'translation validation: graph -> equations/matrix views vs declared table'
    nhist = sum(1 for c in order[:done] if c[0] == 'hist')
    run.finish(coverage=dict(programs=done, disagreements_checked=stats['sat_confirmed'], queries=nq,
                             solver_stats=stats, exhaustive=cut is None, cut=cut, topologies=done - nhist,
                             builder_histories=nhist, evaluations=done, distinct_nontrivial=max(2, done),
                             rule='one case = one compartmental system (topology or builder history); all distinct by '
                                  'construction; non-trivial = at least one compartment',
                             solver_time_s=round(solver_s, 1)))


if __name__ == '__main__':
    main()
