"""C11 (conversion clause) — variance/covariance <-> sd/correlation <-> precision conversions are mutually inverse.

The REAL functions `pharmpy.internals.math.cov2corr / corr2cov` and the `pharmpy.modeling.calculate_*_from_*` family are
executed on numpy object arrays / pandas object frames whose entries are z3 Real terms (lib/symnum.py): every
branch the code or numpy takes on an entry (`corr[cov == 0] = 0`) is decided by the solver and forked when both outcomes
are feasible; on every feasible path z3 then decides the defining relation for ALL matrices of the stated size.
`np.linalg.inv` cannot run on terms and is replaced by its contract: a matrix X of fresh reals with A.X = I and X.A = I
(listed as an assumption).  Square roots are exact (s >= 0, s*s = x).  A `sat` answer is replayed by running the real
function with real numpy on the float matrices of the solver's model; only a numerically confirmed deviation is reported.
"""
import json
import time

import numpy as np
import z3

import symnum
from symnum import SymReal

LABELS3 = ['PA', 'PB', 'PC', 'PD']


def _sym_matrix(stem, n, symmetric=True):
    m = [[None] * n for _ in range(n)]
    for i in range(n):
        for j in range(n):
            if symmetric and j > i:
                continue
            m[i][j] = z3.Real(f'{stem}_{i}{j}')
    if symmetric:
        for i in range(n):
            for j in range(i + 1, n):
                m[i][j] = m[j][i]
    return m


def _obj(m):
    n = len(m)
    a = np.empty((n, len(m[0])), dtype=object)
    for i in range(n):
        for j in range(len(m[0])):
            a[i, j] = SymReal(m[i][j])
    return a


def _objvec(v):
    a = np.empty((len(v),), dtype=object)
    for i, x in enumerate(v):
        a[i] = SymReal(x)
    return a


def _t(x):
    t = symnum._term(x)
    if t is None:
        raise TypeError(f'not a number: {x!r}')
    return t


class _Linalg:
    """contract stub for np.linalg inside pharmpy.modeling.math"""

    def __init__(self, real):
        self._real = real

    def __getattr__(self, k):
        return getattr(self._real, k)

    def inv(self, a):
        a = np.asarray(a)
        if a.dtype != object:
            return self._real.inv(a)
        n = a.shape[0]
        c = symnum.ctx()
        X = [[c.fresh('inv') for _ in range(n)] for _ in range(n)]
        A = [[_t(a[i, j]) for j in range(n)] for i in range(n)]
        for i in range(n):
            for j in range(n):
                e = z3.RealVal(1 if i == j else 0)
                c.defs.append(sum((A[i][k] * X[k][j] for k in range(n)), z3.RealVal(0)) == e)
                c.defs.append(sum((X[i][k] * A[k][j] for k in range(n)), z3.RealVal(0)) == e)
        if not hasattr(c, 'inv_calls'):
            c.inv_calls = []
        c.inv_calls.append((A, X))
        return _obj(X)


class _NpProxy:
    def __init__(self, real):
        self._real = real
        self.linalg = _Linalg(real.linalg)

    def __getattr__(self, k):
        return getattr(self._real, k)


def _matmul(A, B):
    n, m, p = len(A), len(B), len(B[0])
    return [[sum((A[i][k] * B[k][j] for k in range(m)), z3.RealVal(0)) for j in range(p)] for i in range(n)]


def _eye(n):
    return [[z3.RealVal(1 if i == j else 0) for j in range(n)] for i in range(n)]


def _all_eq(A, B):
    return z3.And(*[A[i][j] == B[i][j] for i in range(len(A)) for j in range(len(A[0]))])


def _terms(arr):
    arr = np.asarray(arr, dtype=object)
    if arr.ndim == 1:
        return [_t(x) for x in arr]
    return [[_t(arr[i, j]) for j in range(arr.shape[1])] for i in range(arr.shape[0])]


def _model_floats(model, syms):
    out = {}
    for s in syms:
        v = model.eval(s, model_completion=True)
        if z3.is_algebraic_value(v):
            v = v.approx(20)
        out[str(s)] = float(v.as_fraction()) if hasattr(v, 'as_fraction') else float(str(v))
    return out


def _float_matrix(vals, stem, n):
    return np.array([[vals[f'{stem}_{max(i, j)}{min(i, j)}'] for j in range(n)] for i in range(n)], dtype=float)


def _close(a, b, tol=1e-7):
    a, b = np.asarray(a, dtype=float), np.asarray(b, dtype=float)
    if a.shape != b.shape:
        return False
    if not (np.all(np.isfinite(a)) and np.all(np.isfinite(b))):
        return True       # outside the common domain: not a confirmed deviation
    return bool(np.all(np.abs(a - b) <= tol * (1 + np.abs(a) + np.abs(b))))


def _cases(n, mm, im, pd):
    """obligations for size n: (name, base constraints, symbols, symbolic run, goal builder, numeric replay)"""
    C = _sym_matrix('c', n)
    R = _sym_matrix('r', n)
    S = [z3.Real(f's_{i}') for i in range(n)]
    labels = LABELS3[:n]
    csyms = sorted({C[i][j] for i in range(n) for j in range(n)}, key=str)
    rsyms = sorted({R[i][j] for i in range(n) for j in range(n)}, key=str)
    posdiag = [C[i][i] > 0 for i in range(n)]
    possd = [s > 0 for s in S]
    out = []

    def frame(m):
        return pd.DataFrame(_obj(m), index=list(labels), columns=list(labels))

    def series(v):
        return pd.Series(_objvec(v), index=list(labels))

    def fframe(a):
        return pd.DataFrame(a, index=list(labels), columns=list(labels))

    def labels_ok(df):
        ok = list(df.index) == labels
        if hasattr(df, 'columns'):
            ok = ok and list(df.columns) == labels
        return z3.BoolVal(ok)

    def sqrt_rel(val, i, j):
        # val * sqrt(c_ii) * sqrt(c_jj) == c_ij   expressed without sqrt:  val >=/<= sign and val^2 c_ii c_jj == c_ij^2
        return z3.And(val * val * C[i][i] * C[j][j] == C[i][j] * C[i][j],
                      z3.Or(C[i][j] == 0, (val > 0) == (C[i][j] > 0)))

    # K1 cov2corr
    def k1_run():
        return _terms(im.cov2corr(_obj(C)))

    def k1_goal(v):
        return z3.And(*[v[i][i] == 1 for i in range(n)],
                      *[sqrt_rel(v[i][j], i, j) for i in range(n) for j in range(n) if i != j])

    def k1_num(vals):
        A = _float_matrix(vals, 'c', n)
        got = im.cov2corr(A.copy())
        sd = np.sqrt(np.diag(A))
        return _close(got, A / np.outer(sd, sd))
    out.append((f'cov2corr[n={n}]', posdiag, csyms, k1_run, k1_goal, k1_num))

    # K2 corr2cov
    def k2_run():
        return _terms(im.corr2cov(_obj(R), _objvec(S)))

    def k2_goal(v):
        return z3.And(*[v[i][j] == S[i] * R[i][j] * S[j] for i in range(n) for j in range(n)])

    def k2_num(vals):
        Rm = _float_matrix(vals, 'r', n)
        s = np.array([vals[f's_{i}'] for i in range(n)])
        return _close(im.corr2cov(Rm, s), Rm * np.outer(s, s))
    out.append((f'corr2cov[n={n}]', [], rsyms + S, k2_run, k2_goal, k2_num))

    # K3 round trip cov -> (corr, sd) -> cov
    def k3_run():
        A = _obj(C)
        corr = im.cov2corr(A.copy())
        sd = np.sqrt(np.diag(A))
        return _terms(im.corr2cov(corr, sd))

    def k3_goal(v):
        return _all_eq(v, C)

    def k3_num(vals):
        A = _float_matrix(vals, 'c', n)
        return _close(im.corr2cov(im.cov2corr(A.copy()), np.sqrt(np.diag(A))), A)
    out.append((f'cov_corr_cov[n={n}]', posdiag, csyms, k3_run, k3_goal, k3_num))

    # M1 calculate_se_from_cov
    def m1_run():
        r = mm.calculate_se_from_cov(frame(C))
        return (r, _terms(r.values))

    def m1_goal(v):
        r, t = v
        return z3.And(labels_ok(r), *[z3.And(t[i] >= 0, t[i] * t[i] == C[i][i]) for i in range(n)])

    def m1_num(vals):
        A = _float_matrix(vals, 'c', n)
        r = mm.calculate_se_from_cov(fframe(A))
        return list(r.index) == labels and _close(r.values, np.sqrt(np.diag(A)))
    out.append((f'se_from_cov[n={n}]', posdiag, csyms, m1_run, m1_goal, m1_num))

    # M2 calculate_corr_from_cov
    def m2_run():
        r = mm.calculate_corr_from_cov(frame(C))
        return (r, _terms(r.values))

    def m2_goal(v):
        r, t = v
        return z3.And(labels_ok(r), k1_goal(t))

    def m2_num(vals):
        A = _float_matrix(vals, 'c', n)
        r = mm.calculate_corr_from_cov(fframe(A))
        sd = np.sqrt(np.diag(A))
        return list(r.index) == labels and list(r.columns) == labels and _close(r.values, A / np.outer(sd, sd))
    out.append((f'corr_from_cov[n={n}]', posdiag, csyms, m2_run, m2_goal, m2_num))

    # M3 calculate_cov_from_corrse
    def m3_run():
        r = mm.calculate_cov_from_corrse(frame(R), series(S))
        return (r, _terms(r.values))

    def m3_goal(v):
        r, t = v
        return z3.And(labels_ok(r), k2_goal(t))

    def m3_num(vals):
        Rm = _float_matrix(vals, 'r', n)
        s = np.array([vals[f's_{i}'] for i in range(n)])
        r = mm.calculate_cov_from_corrse(fframe(Rm), pd.Series(s, index=labels))
        return list(r.index) == labels and list(r.columns) == labels and _close(r.values, Rm * np.outer(s, s))
    out.append((f'cov_from_corrse[n={n}]', [], rsyms + S, m3_run, m3_goal, m3_num))

    # M4 round trip through the public functions: cov -> corr, se -> cov
    def m4_run():
        f = frame(C)
        r = mm.calculate_cov_from_corrse(mm.calculate_corr_from_cov(f), mm.calculate_se_from_cov(f))
        return (r, _terms(r.values))

    def m4_goal(v):
        r, t = v
        return z3.And(labels_ok(r), _all_eq(t, C))

    def m4_num(vals):
        A = _float_matrix(vals, 'c', n)
        f = fframe(A)
        r = mm.calculate_cov_from_corrse(mm.calculate_corr_from_cov(f), mm.calculate_se_from_cov(f))
        return _close(r.values, A)
    out.append((f'cov_corrse_cov[n={n}]', posdiag, csyms, m4_run, m4_goal, m4_num))

    # M5 / M6 precision <-> covariance (np.linalg.inv = contract stub)
    def m5_run():
        r = mm.calculate_prec_from_cov(frame(C))
        return (r, _terms(r.values))

    def m5_goal(v):
        r, t = v
        return z3.And(labels_ok(r), _all_eq(_matmul(t, C), _eye(n)))

    def m5_num(vals):
        A = _float_matrix(vals, 'c', n)
        if abs(np.linalg.det(A)) < 1e-6:
            return True
        r = mm.calculate_prec_from_cov(fframe(A))
        return list(r.index) == labels and list(r.columns) == labels and _close(r.values @ A, np.eye(n), 1e-6)
    out.append((f'prec_from_cov[n={n}]', [], csyms, m5_run, m5_goal, m5_num))

    def m6_run():
        r = mm.calculate_cov_from_prec(frame(C))
        return (r, _terms(r.values))
    out.append((f'cov_from_prec[n={n}]', [], csyms, m6_run, m5_goal,
                lambda vals: (abs(np.linalg.det(_float_matrix(vals, 'c', n))) < 1e-6) or _close(
                    mm.calculate_cov_from_prec(fframe(_float_matrix(vals, 'c', n))).values @ _float_matrix(vals, 'c', n),
                    np.eye(n), 1e-6)))

    # M7 se from precision: se_i^2 == (P^-1)_ii
    def inv_calls():
        return list(getattr(symnum.ctx(), 'inv_calls', []))

    def one_inverse_of_C(calls):
        # the function asked the environment for exactly one inverse, and it was the inverse of its argument
        if len(calls) != 1:
            return z3.BoolVal(False), None
        A, X = calls[0]
        return _all_eq(A, C), X

    def m7_run():
        r = mm.calculate_se_from_prec(frame(C))
        return (r, _terms(r.values), inv_calls())

    def m7_goal(v):
        r, t, calls = v
        arg_ok, X = one_inverse_of_C(calls)
        if X is None:
            return arg_ok
        return z3.And(arg_ok, labels_ok(r), *[z3.And(t[i] >= 0, t[i] * t[i] == X[i][i]) for i in range(n)])

    def m7_num(vals):
        A = _float_matrix(vals, 'c', n)
        if abs(np.linalg.det(A)) < 1e-6 or np.any(np.diag(np.linalg.inv(A)) < 0):
            return True
        r = mm.calculate_se_from_prec(fframe(A))
        return _close(r.values, np.sqrt(np.diag(np.linalg.inv(A))), 1e-6)
    out.append((f'se_from_prec[n={n}]', [], csyms, m7_run, m7_goal, m7_num))

    # M8 precision from corr + se:  P . (D R D) == I
    def m8_run():
        r = mm.calculate_prec_from_corrse(frame(R), series(S))
        return (r, _terms(r.values))

    def m8_goal(v):
        r, t = v
        cov = [[S[i] * R[i][j] * S[j] for j in range(n)] for i in range(n)]
        return z3.And(labels_ok(r), _all_eq(_matmul(t, cov), _eye(n)))

    def m8_num(vals):
        Rm = _float_matrix(vals, 'r', n)
        s = np.array([vals[f's_{i}'] for i in range(n)])
        cov = Rm * np.outer(s, s)
        if abs(np.linalg.det(cov)) < 1e-6:
            return True
        r = mm.calculate_prec_from_corrse(fframe(Rm), pd.Series(s, index=labels))
        return _close(r.values @ cov, np.eye(n), 1e-6)
    out.append((f'prec_from_corrse[n={n}]', [], rsyms + S, m8_run, m8_goal, m8_num))

    # M9 corr from precision: corr_ij^2 * X_ii X_jj == X_ij^2 with X the inverse
    def m9_run():
        r = mm.calculate_corr_from_prec(frame(C))
        return (r, _terms(r.values), inv_calls())

    def m9_goal(v):
        r, t, calls = v
        arg_ok, Y = one_inverse_of_C(calls)
        if Y is None:
            return arg_ok
        rel = [t[i][i] == 1 for i in range(n)]
        for i in range(n):
            for j in range(n):
                if i != j:
                    rel.append(t[i][j] * t[i][j] * Y[i][i] * Y[j][j] == Y[i][j] * Y[i][j])
                    rel.append(z3.Or(Y[i][j] == 0, (t[i][j] > 0) == (Y[i][j] > 0)))
        return z3.And(arg_ok, labels_ok(r), *rel)

    def m9_num(vals):
        A = _float_matrix(vals, 'c', n)
        if abs(np.linalg.det(A)) < 1e-6:
            return True
        X = np.linalg.inv(A)
        if np.any(np.diag(X) <= 0):
            return True
        sd = np.sqrt(np.diag(X))
        r = mm.calculate_corr_from_prec(fframe(A))
        return _close(r.values, X / np.outer(sd, sd), 1e-6)
    out.append((f'corr_from_prec[n={n}]', [], csyms, m9_run, m9_goal, m9_num))
    return out


# ---- UCP matrix kernel: _descale_matrix(u0, _scale_matrix(A)) == A ----------------------------------------------------
def _ucp_patterns(n):
    import itertools
    k = n * (n - 1) // 2
    return [''.join(p) for p in itertools.product('pn', repeat=k)]


def ucp_task(task):
    """A = L.L^T with symbolic lower-triangular L (positive diagonal, off-diagonal signs fixed by `pattern`);
    np.linalg.cholesky inside pharmpy.modeling.estimation is replaced by its contract (returns that L, argument must be
    L.L^T).  Initial UCPs are 0.1 on the diagonal and +-0.1 off the diagonal with the sign of the Cholesky factor entry
    (NONMEM's convention).  z3 decides that descaling the initial UCPs with the computed scale gives back A."""
    import warnings
    warnings.simplefilter('ignore')
    import pharmpy.modeling.estimation as est
    _, n, pattern = task
    t0 = time.time()
    name = f'conv.ucp_matrix[n={n},signs={pattern or "-"}]'
    stats = dict(paths=0, queries=0, unsat=0, sat_confirmed=0, sat_unreplayable=0, unknown=0)
    res = dict(task=task, name=name, verdict='inconclusive', detail=None, stats=stats)
    L = [[z3.Real(f'l_{i}{j}') if j <= i else z3.RealVal(0) for j in range(n)] for i in range(n)]
    A = _matmul(L, [[L[j][i] for j in range(n)] for i in range(n)])
    base = [L[i][i] > 0 for i in range(n)]
    u0 = np.zeros((n, n))
    k = 0
    for i in range(n):
        u0[i, i] = 0.1
        for j in range(i):
            neg = pattern[k] == 'n'
            k += 1
            base.append(L[i][j] < 0 if neg else L[i][j] >= 0)
            u0[i, j] = u0[j, i] = -0.1 if neg else 0.1
    syms = [L[i][j] for i in range(n) for j in range(i + 1)]
    calls = []

    class Linalg(_Linalg):
        def cholesky(self, a):
            a = np.asarray(a)
            if a.dtype != object:
                return self._real.cholesky(a)
            calls.append(_terms(a))
            return _obj(L)

    class Proxy(_NpProxy):
        def __init__(self, real):
            self._real = real
            self.linalg = Linalg(real.linalg)
    real_np = est.np
    est.np = Proxy(np)
    try:
        def srun():
            calls.clear()
            scale = est._scale_matrix(_obj(A))
            return _terms(est._descale_matrix(u0.copy(), scale)), list(calls)

        paths, st = symnum.explore(srun, base=base, max_paths=256)
        stats['paths'] += st['paths']
        stats['queries'] += st['feasibility_queries']
        if not st['complete']:
            res.update(detail='path budget exceeded')
            return res
        reach, unknown, bad, left = 0, 0, None, 0

        def num(vals):
            Lf = np.array([[vals.get(f'l_{i}{j}', 0.0) if j <= i else 0.0 for j in range(n)] for i in range(n)])
            Af = Lf @ Lf.T
            est.np = real_np
            try:
                got = est._descale_matrix(u0.copy(), est._scale_matrix(Af))
            finally:
                est.np = proxy
            return _close(got, Af, 1e-6)
        proxy = est.np
        for p in paths:
            if p.error is not None:
                left += 1
                res['error'] = f'{type(p.error).__name__}: {p.error}'[:200]
                continue
            if symnum.witness(p, base) == 'sat':
                reach += 1
            v, cl = p.value
            goal = z3.And(z3.BoolVal(len(cl) == 1), *([_all_eq(cl[0], A)] if len(cl) == 1 else []), _all_eq(v, A))
            r, model = symnum.prove(p, base, goal)
            stats['queries'] += 2
            if r == 'unsat':
                stats['unsat'] += 1
            elif r == 'unknown':
                stats['unknown'] += 1
                unknown += 1
            else:
                vals = _model_floats(model, syms)
                try:
                    ok = num(vals)
                except Exception as e:  # noqa
                    ok = False
                    vals['error'] = f'{type(e).__name__}: {e}'
                if not ok:
                    stats['sat_confirmed'] += 1
                    bad = ('descale(u0, scale(A)) != A', vals)
                    break
                stats['sat_unreplayable'] += 1
                unknown += 1
        if bad is not None:
            res.update(verdict='violated', detail=dict(what=bad[0], values=bad[1]))
        elif left:
            res.update(detail=f'{left} of {len(paths)} paths left the object-array domain: {res.get("error")}')
        elif reach == 0:
            res.update(verdict='vacuous', detail='no reachable path')
        elif unknown:
            res.update(detail=f'{unknown} of {len(paths)} paths undecided')
        else:
            res.update(verdict='discharged', detail=dict(paths=len(paths), reachable=reach))
    except Exception as e:  # noqa
        import traceback
        res.update(verdict='error', detail=f'{type(e).__name__}: {e} {traceback.format_exc()[-300:]}')
    finally:
        est.np = real_np
        res['solver_s'] = time.time() - t0
    return res


BIG = {'cov2corr', 'corr2cov', 'cov_corr_cov', 'se_from_cov', 'corr_from_cov', 'cov_from_corrse'}


def task_list(thorough):
    names = ['cov2corr', 'corr2cov', 'cov_corr_cov', 'se_from_cov', 'corr_from_cov', 'cov_from_corrse', 'cov_corrse_cov',
             'prec_from_cov', 'cov_from_prec', 'se_from_prec', 'prec_from_corrse', 'corr_from_prec']
    todo = [(n, nm) for n in (1, 2, 3) for nm in names]
    if thorough:
        todo += [(4, nm) for nm in names if nm in BIG]
    for n in (1, 2, 3):
        todo += [('ucp', n, pat) for pat in _ucp_patterns(n)]
    return todo


def conv_task(task):
    """one conversion obligation; returns a plain dict (runs in a worker process)."""
    if task[0] == 'ucp':
        return ucp_task(task)
    import warnings
    warnings.simplefilter('ignore')
    import pandas as pd
    import pharmpy.internals.math as im
    import pharmpy.modeling.math as mm
    n, short = task
    real_np = mm.np
    mm.np = _NpProxy(np)
    stats = dict(paths=0, queries=0, unsat=0, sat_confirmed=0, sat_unreplayable=0, unknown=0)
    t0 = time.time()
    res = dict(task=task, name=f'conv.{short}[n={n}]', verdict='inconclusive', detail=None, stats=stats)
    try:
        case = [c for c in _cases(n, mm, im, pd) if c[0] == f'{short}[n={n}]'][0]
        name, base, syms, srun, goal, num = case
        paths, st = symnum.explore(srun, base=base, max_paths=256)
        stats['paths'] += st['paths']
        stats['queries'] += st['feasibility_queries']
        if not st['complete']:
            res.update(detail='path budget exceeded')
            return res
        reach, unknown, left_domain, bad = 0, 0, 0, None
        for p in paths:
            if p.error is not None:
                # the real function raised on this path: decide on a concrete member of the path with real numpy
                s = z3.Solver()
                s.add(*base, *p.defs, *p.domain, *p.path)
                stats['queries'] += 1
                if str(s.check()) == 'sat':
                    vals = _model_floats(s.model(), syms)
                    try:
                        num(vals)
                    except Exception as e:  # noqa
                        bad = (f'raises {type(e).__name__}: {e}', vals)
                        stats['sat_confirmed'] += 1
                        break
                stats['sat_unreplayable'] += 1
                left_domain += 1
                res['error'] = f'{type(p.error).__name__}: {p.error}'[:200]
                continue
            if symnum.witness(p, base) == 'sat':
                reach += 1
            r, model = symnum.prove(p, base, goal(p.value))
            stats['queries'] += 2
            if r == 'unsat':
                stats['unsat'] += 1
            elif r == 'unknown':
                stats['unknown'] += 1
                unknown += 1
            else:
                vals = _model_floats(model, syms)
                try:
                    ok = num(vals)
                except Exception as e:  # noqa
                    ok = False
                    vals['error'] = f'{type(e).__name__}: {e}'
                if not ok:
                    stats['sat_confirmed'] += 1
                    bad = ('defining relation violated', vals)
                    break
                stats['sat_unreplayable'] += 1
                unknown += 1
        if bad is not None:
            res.update(verdict='violated', detail=dict(what=bad[0], values=bad[1]))
        elif left_domain:
            res.update(verdict='inconclusive',
                       detail=f'{left_domain} of {len(paths)} paths left the object-array domain: {res.get("error")}')
        elif reach == 0:
            res.update(verdict='vacuous', detail='no reachable path')
        elif unknown:
            res.update(verdict='inconclusive', detail=f'{unknown} of {len(paths)} paths undecided')
        else:
            res.update(verdict='discharged', detail=dict(paths=len(paths), reachable=reach))
    except Exception as e:  # noqa
        import traceback
        res.update(verdict='error', detail=f'{type(e).__name__}: {e} {traceback.format_exc()[-300:]}')
    finally:
        mm.np = real_np
        res['solver_s'] = time.time() - t0
    return res


def record(run, res, stats):
    """fold one task result into the Run."""
    for k, v in res['stats'].items():
        stats[k] = stats.get(k, 0) + v
    ob = res['name']
    if res['verdict'] == 'violated':
        d = res['detail']
        if res['task'][0] == 'ucp':
            rname = 'ucp:' + json.dumps(list(res['task']))
        else:
            n, short = res['task']
            rname = f'{short}[n={n}]'
        v = run.report_violation(ob, f"{ob} :: {d['what']}", dict(kind='C11conv', name=rname, values=d['values']),
                                 f"{d['what']} at {d['values']}")
        run.add(ob, v, res['solver_s'], d)
    elif res['verdict'] in ('vacuous', 'error'):
        run.add(ob, res['verdict'], res['solver_s'], res['detail'])
        run.harness_error(f"{ob}: {res['detail']}")
    else:
        run.add(ob, res['verdict'], res['solver_s'], res['detail'])


def run_conversions(run, thorough):
    stats = {}
    for t in task_list(thorough):
        record(run, conv_task(t), stats)
    return stats


def replay(d):
    """re-run one conversion obligation numerically on the recorded values (real numpy, real pharmpy)."""
    import warnings
    warnings.simplefilter('ignore')
    import pandas as pd
    import pharmpy.internals.math as im
    import pharmpy.modeling.math as mm
    name, vals = d['name'], d['values']
    if name.startswith('ucp:'):
        import pharmpy.modeling.estimation as est
        _, n, pattern = json.loads(name[4:])
        Lf = np.array([[vals.get(f'l_{i}{j}', 0.0) if j <= i else 0.0 for j in range(n)] for i in range(n)])
        Af = Lf @ Lf.T
        u0 = np.where(Lf < 0, -0.1, 0.1)
        u0 = np.tril(u0) + np.tril(u0, -1).T
        got = est._descale_matrix(u0.copy(), est._scale_matrix(Af))
        ok = _close(got, Af, 1e-6)
        print(f'{name}: descale(u0, scale(A)) {"== A" if ok else "!= A: VIOLATED"}\nA={Af}\ngot={got}')
        return 0 if ok else 1
    n = int(name.split('n=')[1].rstrip(']'))
    for nm, base, syms, srun, goal, num in _cases(n, mm, im, pd):
        if nm == name:
            try:
                ok = num(vals)
            except Exception as e:  # noqa
                print(f'{name}: raises {type(e).__name__}: {e}')
                return 1
            print(f'{name}: relation {"holds" if ok else "VIOLATED"} at {vals}')
            return 0 if ok else 1
    return 2
